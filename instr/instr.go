// Package instr is E2 of DESIGN.md: it derives an instrumented copy of the graphql-go
// packages from /repo's *working tree* and describes it as a `go build -overlay` file.
// Nothing under /repo is modified.
//
// Rewrites (all local text splices that keep line numbers):
//
//	map ranges         for k, v := range m   ->  for _vi := vseam.Iter(m, site); _vi.Next(); { k, v := _vi.K, _vi.V
//	sync, sync/atomic  import path replaced by the scheduler shims (same identifiers)
//	go f()             vsched.Go(site, func(){...})
//	ch <- v, <-ch ...  vsched.Send / Recv / Recv2 / Close
//	select             switch on vsched.Select(...) followed by the one real operation
//	func/loop bodies   vstep.Hit()
//
// plus the shim packages and the private-state dump file added as new files.
package instr

import (
	"bytes"
	"encoding/json"
	"fmt"
	"go/ast"
	"go/token"
	"go/types"
	"os"
	"path/filepath"
	"sort"
	"strings"

	"golang.org/x/tools/go/packages"
)

const ModPath = "github.com/graphql-go/graphql"

type Options struct {
	Repo    string // /repo
	ShimDir string // /verif/shim
	Work    string // output directory
	MapSeam bool
	Steps   bool
	Sched   bool
	Dump    bool
	// Patch optionally replaces file contents before instrumentation: repo-relative path ->
	// new content (used by the mutant self-test; never touches /repo).
	Patch map[string][]byte
}

type Stats struct {
	Files        int
	MapRanges    int
	MapRangesRaw int // left alone (non-string keys, labelled)
	GoStmts      int
	ChanOps      int
	Selects      int
	SyncImports  int
	StepSites    int
	Skipped      []string
}

type edit struct {
	start, end int
	text       string
}

// Packages of the module that get instrumented (everything the library consists of).
var patterns = []string{
	".", "./gqlerrors", "./language/ast", "./language/kinds", "./language/lexer", "./language/location",
	"./language/parser", "./language/printer", "./language/source", "./language/typeInfo", "./language/visitor",
}

// Generate writes the instrumented files and overlay.json into o.Work and returns the
// overlay path.
func Generate(o Options) (string, *Stats, error) {
	st := &Stats{}
	if err := os.MkdirAll(o.Work, 0o755); err != nil {
		return "", nil, err
	}
	overlay := map[string]string{}

	// shim packages -> virtual directories inside the module
	addShim := func(name string) error {
		src := filepath.Join(o.ShimDir, name)
		ents, err := os.ReadDir(src)
		if err != nil {
			return err
		}
		for _, e := range ents {
			if e.IsDir() || !strings.HasSuffix(e.Name(), ".go") {
				continue
			}
			overlay[filepath.Join(o.Repo, name, e.Name())] = filepath.Join(src, e.Name())
		}
		return nil
	}
	for _, s := range []string{"vseam", "vstep", "vsched", "vsched/vatomic"} {
		if err := addShim(s); err != nil {
			return "", nil, fmt.Errorf("shim %s: %v", s, err)
		}
	}
	if o.Dump {
		ents, _ := os.ReadDir(filepath.Join(o.ShimDir, "dump"))
		for _, e := range ents {
			if strings.HasSuffix(e.Name(), ".go") {
				overlay[filepath.Join(o.Repo, "verif_"+e.Name())] = filepath.Join(o.ShimDir, "dump", e.Name())
			}
		}
	}

	if o.MapSeam || o.Steps || o.Sched {
		loadOverlay := map[string][]byte{}
		for rel, content := range o.Patch {
			loadOverlay[filepath.Join(o.Repo, rel)] = content
		}
		cfg := &packages.Config{
			Mode: packages.NeedName | packages.NeedFiles | packages.NeedCompiledGoFiles | packages.NeedImports |
				packages.NeedTypes | packages.NeedSyntax | packages.NeedTypesInfo | packages.NeedTypesSizes,
			Dir:     o.Repo,
			Env:     append(os.Environ(), "GOFLAGS=-mod=mod", "GOPROXY=off", "GOSUMDB=off", "GOTOOLCHAIN=local"),
			Overlay: loadOverlay,
		}
		pkgs, err := packages.Load(cfg, patterns...)
		if err != nil {
			return "", nil, fmt.Errorf("load: %v", err)
		}
		for _, p := range pkgs {
			if len(p.Errors) > 0 {
				return "", nil, fmt.Errorf("package %s does not type-check: %v", p.PkgPath, p.Errors[0])
			}
			for i, f := range p.Syntax {
				path := p.CompiledGoFiles[i]
				if strings.HasSuffix(path, "_test.go") {
					continue
				}
				var src []byte
				if rel, err := filepath.Rel(o.Repo, path); err == nil {
					if c, ok := o.Patch[rel]; ok {
						src = c
					}
				}
				if src == nil {
					src, err = os.ReadFile(path)
					if err != nil {
						return "", nil, err
					}
				}
				out, changed, err := rewriteFile(p, f, path, src, o, st)
				if err != nil {
					return "", nil, fmt.Errorf("%s: %v", path, err)
				}
				_, patched := o.Patch[mustRel(o.Repo, path)]
				if !changed && !patched {
					continue
				}
				st.Files++
				rel := mustRel(o.Repo, path)
				dst := filepath.Join(o.Work, "src", rel)
				if err := os.MkdirAll(filepath.Dir(dst), 0o755); err != nil {
					return "", nil, err
				}
				if err := os.WriteFile(dst, out, 0o644); err != nil {
					return "", nil, err
				}
				overlay[path] = dst
			}
		}
	} else {
		for rel, content := range o.Patch {
			dst := filepath.Join(o.Work, "src", rel)
			os.MkdirAll(filepath.Dir(dst), 0o755)
			if err := os.WriteFile(dst, content, 0o644); err != nil {
				return "", nil, err
			}
			overlay[filepath.Join(o.Repo, rel)] = dst
		}
	}

	b, _ := json.MarshalIndent(map[string]interface{}{"Replace": overlay}, "", " ")
	ov := filepath.Join(o.Work, "overlay.json")
	if err := os.WriteFile(ov, b, 0o644); err != nil {
		return "", nil, err
	}
	return ov, st, nil
}

func mustRel(base, p string) string {
	r, err := filepath.Rel(base, p)
	if err != nil {
		return p
	}
	return r
}

type rewriter struct {
	p                             *packages.Package
	fset                          *token.FileSet
	file                          *token.File
	src                           []byte
	edits                         []edit
	o                             Options
	st                            *Stats
	base                          string
	needSeam, needStep, needSched bool
	inComm                        map[ast.Node]bool
	labelled                      map[ast.Stmt]bool
	err                           error
}

func (r *rewriter) off(p token.Pos) int { return r.file.Offset(p) }
func (r *rewriter) text(n ast.Node) string {
	return string(r.src[r.off(n.Pos()):r.off(n.End())])
}
func (r *rewriter) site(p token.Pos) string {
	pos := r.fset.Position(p)
	return fmt.Sprintf("%s:%d", r.base, pos.Line)
}
func (r *rewriter) add(start, end token.Pos, text string) {
	r.edits = append(r.edits, edit{r.off(start), r.off(end), text})
}
func (r *rewriter) insert(at token.Pos, text string) {
	r.edits = append(r.edits, edit{r.off(at), r.off(at), text})
}
func (r *rewriter) newlines(start, end token.Pos) string {
	return strings.Repeat("\n", bytes.Count(r.src[r.off(start):r.off(end)], []byte("\n")))
}

func rewriteFile(p *packages.Package, f *ast.File, path string, src []byte, o Options, st *Stats) ([]byte, bool, error) {
	r := &rewriter{p: p, fset: p.Fset, file: p.Fset.File(f.Pos()), src: src, o: o, st: st,
		base: mustRel(o.Repo, path), inComm: map[ast.Node]bool{}, labelled: map[ast.Stmt]bool{}}

	// imports of sync / sync/atomic
	var syncSpecs []*ast.ImportSpec
	if o.Sched {
		for _, is := range f.Imports {
			switch is.Path.Value {
			case `"sync"`:
				if is.Name != nil && is.Name.Name != "sync" {
					return nil, false, fmt.Errorf("renamed sync import not supported")
				}
				r.add(is.Pos(), is.End(), `sync "`+ModPath+`/vsched"`)
				st.SyncImports++
				syncSpecs = append(syncSpecs, is)
			case `"sync/atomic"`:
				if is.Name != nil && is.Name.Name != "atomic" {
					return nil, false, fmt.Errorf("renamed sync/atomic import not supported")
				}
				r.add(is.Pos(), is.End(), `atomic "`+ModPath+`/vsched/vatomic"`)
				st.SyncImports++
				syncSpecs = append(syncSpecs, is)
			case `"time"`, `"context"`:
				// checked below: the library must not create timers or derive contexts
			}
		}
	}

	ast.Inspect(f, func(n ast.Node) bool {
		if ls, ok := n.(*ast.LabeledStmt); ok {
			r.labelled[ls.Stmt] = true
		}
		return true
	})

	ast.Inspect(f, func(n ast.Node) bool {
		if r.err != nil {
			return false
		}
		switch n := n.(type) {
		case *ast.FuncDecl:
			if o.Steps && n.Body != nil {
				r.insert(n.Body.Lbrace+1, "vstep.Hit();")
				r.needStep = true
				st.StepSites++
			}
		case *ast.FuncLit:
			if o.Steps {
				r.insert(n.Body.Lbrace+1, "vstep.Hit();")
				r.needStep = true
				st.StepSites++
			}
		case *ast.ForStmt:
			if o.Steps {
				r.insert(n.Body.Lbrace+1, "vstep.Hit();")
				r.needStep = true
				st.StepSites++
			}
		case *ast.RangeStmt:
			r.rangeStmt(n)
		case *ast.GoStmt:
			if o.Sched {
				r.goStmt(n)
			}
		case *ast.SendStmt:
			if o.Sched && !r.inComm[n] {
				r.add(n.Pos(), n.End(), fmt.Sprintf("vsched.Send(%q, %s, %s)", r.site(n.Pos()), r.text(n.Chan), r.text(n.Value)))
				r.needSched = true
				st.ChanOps++
				return false
			}
		case *ast.SelectStmt:
			if o.Sched {
				r.selectStmt(n)
			}
		case *ast.AssignStmt:
			// v, ok := <-ch
			if o.Sched && !r.inComm[n] && len(n.Lhs) == 2 && len(n.Rhs) == 1 {
				if u, ok := n.Rhs[0].(*ast.UnaryExpr); ok && u.Op == token.ARROW {
					r.add(u.Pos(), u.End(), fmt.Sprintf("vsched.Recv2(%q, %s)", r.site(u.Pos()), r.text(u.X)))
					r.needSched = true
					st.ChanOps++
					r.inComm[u] = true
				}
			}
		case *ast.UnaryExpr:
			if o.Sched && n.Op == token.ARROW && !r.inComm[n] {
				r.add(n.Pos(), n.End(), fmt.Sprintf("vsched.Recv(%q, %s)", r.site(n.Pos()), r.text(n.X)))
				r.needSched = true
				st.ChanOps++
			}
		case *ast.CallExpr:
			if o.Sched {
				if id, ok := n.Fun.(*ast.Ident); ok && id.Name == "close" && len(n.Args) == 1 {
					if _, isBuiltin := p.TypesInfo.Uses[id].(*types.Builtin); isBuiltin {
						r.add(id.Pos(), id.End(), "vsched.Close")
						r.needSched = true
						st.ChanOps++
					}
				}
				// forbidden: timers and derived contexts create goroutines the scheduler does not own
				if sel, ok := n.Fun.(*ast.SelectorExpr); ok {
					if id, ok := sel.X.(*ast.Ident); ok {
						if pn, ok := p.TypesInfo.Uses[id].(*types.PkgName); ok {
							full := pn.Imported().Path() + "." + sel.Sel.Name
							switch full {
							case "time.After", "time.AfterFunc", "time.NewTimer", "time.NewTicker", "time.Tick", "time.Sleep",
								"context.WithCancel", "context.WithTimeout", "context.WithDeadline", "context.WithCancelCause",
								"context.WithTimeoutCause", "context.WithDeadlineCause", "context.AfterFunc":
								r.err = fmt.Errorf("%s: library calls %s, which the scheduler cannot own", r.site(n.Pos()), full)
							}
						}
					}
				}
			}
		}
		return true
	})
	if r.err != nil {
		return nil, false, r.err
	}
	if len(r.edits) == 0 {
		return src, false, nil
	}

	// add shim imports right after the package clause (same line, to keep numbering)
	var imps []string
	if r.needSeam {
		imps = append(imps, `import vseam "`+ModPath+`/vseam"`)
	}
	if r.needStep {
		imps = append(imps, `import vstep "`+ModPath+`/vstep"`)
	}
	if r.needSched {
		imps = append(imps, `import vsched "`+ModPath+`/vsched"`)
	}
	if len(imps) > 0 {
		r.edits = append(r.edits, edit{r.off(f.Name.End()), r.off(f.Name.End()), ";" + strings.Join(imps, ";")})
	}

	sort.SliceStable(r.edits, func(i, j int) bool {
		if r.edits[i].start != r.edits[j].start {
			return r.edits[i].start < r.edits[j].start
		}
		return r.edits[i].end < r.edits[j].end
	})
	var out bytes.Buffer
	fmt.Fprintf(&out, "//line %s:1\n", path)
	last := 0
	for _, e := range r.edits {
		if e.start < last {
			return nil, false, fmt.Errorf("overlapping edits at offset %d (%q)", e.start, e.text)
		}
		out.Write(src[last:e.start])
		out.WriteString(e.text)
		last = e.end
	}
	out.Write(src[last:])
	return out.Bytes(), true, nil
}

func (r *rewriter) rangeStmt(n *ast.RangeStmt) {
	tv, ok := r.p.TypesInfo.Types[n.X]
	if !ok {
		return
	}
	if _, isChan := tv.Type.Underlying().(*types.Chan); isChan && r.o.Sched {
		// for v := range ch { ... }  ->  for { v, _vok := vsched.Recv2(site, ch); if !_vok { break }; ... }
		switch n.X.(type) {
		case *ast.Ident, *ast.SelectorExpr:
		default:
			r.err = fmt.Errorf("%s: range over a channel expression other than a name is not supported by the instrumenter", r.site(n.Pos()))
			return
		}
		bind := "_"
		after := ""
		if n.Key != nil {
			if id, ok := n.Key.(*ast.Ident); !ok || id.Name != "_" {
				if n.Tok == token.ASSIGN {
					bind, after = "_vv", fmt.Sprintf("%s = _vv;", r.text(n.Key))
				} else {
					bind = r.text(n.Key)
				}
			}
		}
		hdr := fmt.Sprintf("for {%s, _vok := vsched.Recv2(%q, %s); if !_vok { break }; %s%s", bind, r.site(n.Pos()), r.text(n.X), after, r.newlines(n.For, n.Body.Lbrace))
		r.add(n.For, n.Body.Lbrace+1, hdr)
		r.needSched = true
		return
	}
	if r.o.Steps {
		r.insert(n.Body.Lbrace+1, "vstep.Hit();")
		r.needStep = true
		r.st.StepSites++
	}
	if !r.o.MapSeam {
		return
	}
	mt, isMap := tv.Type.Underlying().(*types.Map)
	if !isMap {
		return
	}
	kb, ok := mt.Key().Underlying().(*types.Basic)
	if !ok || kb.Info()&(types.IsString|types.IsInteger) == 0 {
		r.st.MapRangesRaw++
		r.st.Skipped = append(r.st.Skipped, r.site(n.Pos())+" key "+mt.Key().String())
		return
	}
	name := func(e ast.Expr) string {
		if e == nil {
			return ""
		}
		if id, ok := e.(*ast.Ident); ok && id.Name == "_" {
			return ""
		}
		return r.text(e)
	}
	k, v := name(n.Key), name(n.Value)
	tok := ":="
	if n.Tok == token.ASSIGN {
		tok = "="
	}
	// a unique iterator name per nesting depth is not needed: inner loops shadow.
	var bind string
	switch {
	case k != "" && v != "":
		bind = fmt.Sprintf("%s, %s %s _vi.K, _vi.V;", k, v, tok)
	case k != "":
		bind = fmt.Sprintf("%s %s _vi.K;", k, tok)
	case v != "":
		bind = fmt.Sprintf("%s %s _vi.V;", v, tok)
	}
	hdr := fmt.Sprintf("for _vi := vseam.Iter(%s, %q); _vi.Next(); {%s%s", r.text(n.X), r.site(n.Pos()), bind, r.newlines(n.For, n.Body.Lbrace))
	// the Steps insertion above sits at Lbrace+1 as a zero-width edit; it stays after this one
	r.add(n.For, n.Body.Lbrace+1, hdr)
	r.needSeam = true
	r.st.MapRanges++
}

func (r *rewriter) goStmt(n *ast.GoStmt) {
	r.needSched = true
	r.st.GoStmts++
	site := r.site(n.Pos())
	if fl, ok := n.Call.Fun.(*ast.FuncLit); ok && len(n.Call.Args) == 0 {
		_ = fl
		r.add(n.Go, n.Call.Pos(), fmt.Sprintf("vsched.GoLib(%q, ", site))
		r.add(n.Call.Lparen, n.Call.Rparen+1, ")")
		return
	}
	// general form: evaluate function value and arguments now, call later
	if n.Call.Ellipsis.IsValid() {
		r.err = fmt.Errorf("%s: go statement with variadic spread not supported", site)
		return
	}
	var names, vals []string
	names = append(names, "_gf")
	vals = append(vals, r.text(n.Call.Fun))
	for i, a := range n.Call.Args {
		names = append(names, fmt.Sprintf("_ga%d", i))
		vals = append(vals, r.text(a))
	}
	call := "_gf(" + strings.Join(names[1:], ", ") + ")"
	txt := fmt.Sprintf("{ %s := %s; vsched.GoLib(%q, func() { %s }) }%s", strings.Join(names, ", "), strings.Join(vals, ", "), site, call, r.newlines(n.Pos(), n.End()))
	r.add(n.Pos(), n.End(), txt)
	// children must not be edited again
	ast.Inspect(n.Call, func(c ast.Node) bool {
		if c != nil {
			r.inComm[c] = true
		}
		return true
	})
}

func (r *rewriter) selectStmt(n *ast.SelectStmt) {
	site := r.site(n.Pos())
	if r.labelled[n] {
		r.err = fmt.Errorf("%s: labelled select not supported", site)
		return
	}
	r.needSched = true
	r.st.Selects++
	hasDefault := false
	var pre []string // channel / value temporaries
	var cases []string
	idx := 0
	type cc struct {
		clause *ast.CommClause
		idx    int
		op     string // real single operation text
	}
	var ccs []cc
	for _, s := range n.Body.List {
		c := s.(*ast.CommClause)
		if c.Comm == nil {
			hasDefault = true
			ccs = append(ccs, cc{clause: c, idx: -1})
			continue
		}
		mark := func(x ast.Node) {
			ast.Inspect(x, func(c ast.Node) bool {
				if c != nil {
					r.inComm[c] = true
				}
				return true
			})
		}
		mark(c.Comm)
		chName := fmt.Sprintf("_sc%d", idx)
		var op string
		switch cs := c.Comm.(type) {
		case *ast.SendStmt:
			valName := fmt.Sprintf("_sv%d", idx)
			pre = append(pre, fmt.Sprintf("%s := %s; %s := %s", chName, r.text(cs.Chan), valName, r.text(cs.Value)))
			cases = append(cases, fmt.Sprintf("vsched.CaseSend(%s)", chName))
			op = fmt.Sprintf("%s <- %s", chName, valName)
		case *ast.ExprStmt:
			u, ok := cs.X.(*ast.UnaryExpr)
			if !ok || u.Op != token.ARROW {
				r.err = fmt.Errorf("%s: unsupported select case", site)
				return
			}
			pre = append(pre, fmt.Sprintf("%s := %s", chName, r.text(u.X)))
			cases = append(cases, fmt.Sprintf("vsched.CaseRecv(%s)", chName))
			op = fmt.Sprintf("<-%s", chName)
		case *ast.AssignStmt:
			if len(cs.Rhs) != 1 {
				r.err = fmt.Errorf("%s: unsupported select case", site)
				return
			}
			u, ok := cs.Rhs[0].(*ast.UnaryExpr)
			if !ok || u.Op != token.ARROW {
				r.err = fmt.Errorf("%s: unsupported select case", site)
				return
			}
			pre = append(pre, fmt.Sprintf("%s := %s", chName, r.text(u.X)))
			cases = append(cases, fmt.Sprintf("vsched.CaseRecv(%s)", chName))
			var lhs []string
			for _, l := range cs.Lhs {
				lhs = append(lhs, r.text(l))
			}
			op = fmt.Sprintf("%s %s <-%s", strings.Join(lhs, ", "), cs.Tok.String(), chName)
		default:
			r.err = fmt.Errorf("%s: unsupported select case", site)
			return
		}
		ccs = append(ccs, cc{clause: c, idx: idx, op: op})
		idx++
	}
	hdr := fmt.Sprintf("{ %s; switch _si, _st := vsched.Select(%q, %v, %s); _si {%s",
		strings.Join(pre, "; "), site, hasDefault, strings.Join(cases, ", "), r.newlines(n.Select, n.Body.Lbrace))
	if len(pre) == 0 {
		hdr = fmt.Sprintf("{ switch _si, _st := vsched.Select(%q, %v); _si {%s", site, hasDefault, r.newlines(n.Select, n.Body.Lbrace))
	}
	r.add(n.Select, n.Body.Lbrace+1, hdr)
	for _, c := range ccs {
		if c.idx < 0 {
			r.add(c.clause.Case, c.clause.Colon+1, "default: vsched.AfterOp(_st);"+r.newlines(c.clause.Case, c.clause.Colon))
			continue
		}
		r.add(c.clause.Case, c.clause.Colon+1, fmt.Sprintf("case %d: %s; vsched.AfterOp(_st);%s", c.idx, c.op, r.newlines(c.clause.Case, c.clause.Colon)))
	}
	if hasDefault {
		r.insert(n.Body.Rbrace+1, "}")
	} else {
		// a select without default is a terminating statement; keep the switch one too
		r.add(n.Body.Rbrace, n.Body.Rbrace+1, "default: panic(\"vsched: bad select index\")}}")
	}
}
