// Package explore is E1 of DESIGN.md: a stateless, deviation-bounded, depth-first
// explorer over choice sequences. A harness body draws every nondeterministic decision
// from X.Choose / X.Dev; the explorer enumerates *all* choice sequences whose number of
// deviations (non-default answers at Dev points) stays within the bound, running the real
// code once per sequence.
package explore

import (
	"fmt"
	"hash/fnv"
	"os"
	"time"
)

// HarnessError is a problem of the machinery itself (never a property violation).
type HarnessError struct{ Msg string }

func (h HarnessError) Error() string { return "HARNESS: " + h.Msg }

// Fatal aborts the process with exit status 2 (harness problem, not a verdict).
func Fatal(format string, a ...interface{}) {
	fmt.Fprintf(os.Stderr, "HARNESS-ERROR: "+format+"\n", a...)
	os.Exit(2)
}

type point struct {
	n      int32
	c      int32
	costed bool
	w      int32 // cost of a non-default answer at this point
}

// X is one execution's source of choices.
type X struct {
	e      *Explorer
	forced []int32
	pts    []point
	devs   int
	// Over is set when the execution exceeded the point horizon; bodies should bail out.
	Over bool
	// noExpand: points created after this index are not expanded (set by StopExpanding).
	stopAt int
}

// Choose returns a free (uncosted) choice in [0,n). Choose, Dev, DevW and Flip are
// //go:norace and allocation-free: under the scheduler they are called from whichever
// goroutine holds the token, with hand-offs the race detector cannot see (DESIGN.md E3).
//
//go:norace
func (x *X) Choose(n int, label string) int { return x.choose(n, false, 0) }

// Dev returns a costed choice in [0,n): answer 0 is the default, any other answer is one
// deviation.
//
//go:norace
func (x *X) Dev(n int, label string) int { return x.choose(n, true, 1) }

// DevW is Dev with an explicit cost for non-default answers.
//
//go:norace
func (x *X) DevW(n int, w int, label string) int { return x.choose(n, true, w) }

// Flip is Dev(2)==1.
//
//go:norace
func (x *X) Flip(label string) bool { return x.choose(2, true, 1) == 1 }

//go:norace
func (x *X) choose(n int, costed bool, w int) int {
	if n <= 0 {
		Fatal("Choose(%d) at point %d", n, len(x.pts))
	}
	i := len(x.pts)
	if i >= cap(x.pts) {
		// horizon of the preallocated trace: answer the default and stop recording
		x.Over = true
		return 0
	}
	c := 0
	if i < len(x.forced) {
		c = int(x.forced[i])
		if c >= n {
			Fatal("replay divergence: forced choice %d out of range %d at point %d (prefix %v)", c, n, i, x.forced)
		}
	}
	x.pts = x.pts[:i+1]
	if n == 1 {
		// not a real choice point but keep indices aligned for replay
		x.pts[i] = point{n: 1}
		return 0
	}
	if costed && c != 0 {
		x.devs += w
	}
	x.pts[i] = point{n: int32(n), c: int32(c), costed: costed, w: int32(w)}
	if x.e.MaxPoints > 0 && len(x.pts) > x.e.MaxPoints {
		x.Over = true
	}
	return c
}

const traceCap = 1 << 15

// Prune is called by scheduler harnesses before a scheduling decision with a digest of the
// complete state. If the same state was already reached with at least the remaining
// deviation budget, its futures are covered: the explorer will not branch on any later
// point of this execution. (Allocation-free, //go:norace: open-addressing table.)
//
//go:norace
func (x *X) Prune(key uint64) {
	e := x.e
	if e.seenKeys == nil || x.stopAt >= 0 || len(x.pts) < len(x.forced) {
		return
	}
	rem := int8(e.MaxDev - x.devs)
	if key == 0 {
		key = 1
	}
	mask := uint64(len(e.seenKeys) - 1)
	i := key & mask
	for n := 0; n < 64; n++ {
		k := e.seenKeys[i]
		if k == 0 {
			if e.seenUsed*2 < len(e.seenKeys) {
				e.seenKeys[i] = key
				e.seenRem[i] = rem
				e.seenUsed++
			}
			return
		}
		if k == key {
			if e.seenRem[i] >= rem {
				x.stopAt = len(x.pts)
				e.Pruned++
			} else {
				e.seenRem[i] = rem
			}
			return
		}
		i = (i + 1) & mask
	}
}

// Remaining returns how many more deviations this execution may still take.
func (x *X) Remaining() int { return x.e.MaxDev - x.devs }

// Devs returns the deviations taken so far.
func (x *X) Devs() int { return x.devs }

// Trace returns the choices taken so far (a copy).
func (x *X) Trace() []int {
	out := make([]int, len(x.pts))
	for i, p := range x.pts {
		out[i] = int(p.c)
	}
	return out
}

// Depth is the number of choice points so far.
func (x *X) Depth() int { return len(x.pts) }

// StopExpanding tells the explorer not to branch on any point created from now on in this
// execution (used when the remainder of an execution is known to be irrelevant, e.g. after
// an input was rejected as outside the space).
func (x *X) StopExpanding() {
	if x.stopAt < 0 {
		x.stopAt = len(x.pts)
	}
}

// Explorer configuration and statistics.
type Explorer struct {
	// OnDiverge, when set, receives a failed determinism re-run (same choices, other
	// observations) instead of aborting the worker: for checks whose executions are
	// sequential and closed, a divergence means state of the code under test outlives
	// an execution.
	OnDiverge func(trace []int, what string)

	MaxDev    int // deviation budget per execution
	MaxPoints int // horizon on choice points per execution (0 = none)

	Shard, NShards int // this worker / number of workers
	ShardLevel     int // executions of branching level <= ShardLevel are replicated on every worker

	Deadline time.Time // zero = none

	RecheckEvery int // determinism guard: every k-th owned execution is run twice (0 = 97)

	// StatePruning enables X.Prune (a table of 2^20 state digests; when half full no more
	// states are remembered, which only reduces pruning).
	StatePruning bool
	seenKeys     []uint64
	seenRem      []int8
	seenUsed     int
	Pruned       uint64

	// statistics (owned executions only, except Replicated)
	Execs       uint64
	Replicated  uint64
	Points      uint64
	MaxDepth    int
	Rechecks    uint64
	DeadlineHit bool
	Pending     int // work items left on the stack when a deadline stopped the run
}

var (
	pruneKeys []uint64
	pruneRem  []int8
)

//go:norace
func clearKeys(k []uint64) {
	for i := range k {
		k[i] = 0
	}
}

type item struct {
	forced []int32
	level  int
}

func hashPrefix(p []int32) uint32 {
	h := fnv.New32a()
	var b [4]byte
	for _, v := range p {
		b[0], b[1], b[2], b[3] = byte(v), byte(v>>8), byte(v>>16), byte(v>>24)
		h.Write(b[:])
	}
	return h.Sum32()
}

// Body runs one execution. owned tells whether this worker is responsible for judging and
// counting it (replicated top-of-tree executions are run by every worker so that each can
// discover the same children, but judged by exactly one). The returned digest summarises
// everything the body observed; it is used by the determinism guard.
type Body func(x *X, owned bool) (digest uint64)

// Run explores every choice sequence within the bounds.
func (e *Explorer) Run(body Body) {
	if e.NShards <= 0 {
		e.NShards = 1
	}
	if e.RecheckEvery == 0 {
		e.RecheckEvery = 97
	}
	if e.StatePruning {
		if pruneKeys == nil {
			pruneKeys = make([]uint64, 1<<20)
			pruneRem = make([]int8, 1<<20)
		} else {
			clearKeys(pruneKeys)
		}
		e.seenKeys, e.seenRem, e.seenUsed = pruneKeys, pruneRem, 0
	}
	stack := []item{{forced: nil, level: 0}}
	x := &X{e: e, pts: make([]point, 0, traceCap)}
	for len(stack) > 0 {
		if !e.Deadline.IsZero() && time.Now().After(e.Deadline) {
			e.DeadlineHit = true
			e.Pending = len(stack)
			return
		}
		it := stack[len(stack)-1]
		stack = stack[:len(stack)-1]
		h := int(hashPrefix(it.forced) % uint32(e.NShards))
		owned := h == e.Shard
		if it.level == e.ShardLevel+1 && !owned {
			continue
		}
		if it.level > e.ShardLevel {
			owned = true
		}
		x.forced = it.forced
		x.pts = x.pts[:0]
		x.devs = 0
		x.Over = false
		x.stopAt = -1
		d := body(x, owned)
		if owned {
			e.Execs++
			e.Points += uint64(len(x.pts))
			if len(x.pts) > e.MaxDepth {
				e.MaxDepth = len(x.pts)
			}
			if e.Execs%uint64(e.RecheckEvery) == 1 {
				e.recheck(body, x, d)
			}
		} else {
			e.Replicated++
		}
		// expand alternatives after the forced prefix, deepest first so that the stack pops
		// the shallowest / smallest alternative first
		limit := len(x.pts)
		if x.stopAt >= 0 && x.stopAt < limit {
			limit = x.stopAt
		}
		// cost of the execution before each point
		costBefore := make([]int, limit+1)
		c := 0
		for i := 0; i < limit; i++ {
			costBefore[i] = c
			if x.pts[i].costed && x.pts[i].c != 0 {
				c += int(x.pts[i].w)
			}
		}
		for i := limit - 1; i >= len(it.forced); i-- {
			p := x.pts[i]
			if p.n <= 1 {
				continue
			}
			if p.costed && costBefore[i]+int(p.w) > e.MaxDev {
				continue
			}
			for alt := int(p.n) - 1; alt >= 1; alt-- {
				nf := make([]int32, i+1)
				for j := 0; j < i; j++ {
					nf[j] = x.pts[j].c
				}
				nf[i] = int32(alt)
				stack = append(stack, item{forced: nf, level: it.level + 1})
			}
		}
	}
}

func (e *Explorer) recheck(body Body, x *X, d uint64) {
	full := make([]int32, len(x.pts))
	ns := make([]int32, len(x.pts))
	for i, p := range x.pts {
		full[i] = p.c
		ns[i] = p.n
	}
	savedForced := x.forced
	x2 := &X{e: e, forced: full, stopAt: -1, pts: make([]point, 0, traceCap)}
	d2 := body(x2, false)
	e.Rechecks++
	diverged := func(format string, a ...interface{}) {
		if e.OnDiverge != nil {
			tr := make([]int, len(full))
			for i, c := range full {
				tr[i] = int(c)
			}
			e.OnDiverge(tr, fmt.Sprintf(format, a...))
			return
		}
		Fatal("HARNESS-NONDETERMINISM: "+format, a...)
	}
	if d2 != d || len(x2.pts) != len(ns) {
		diverged("replay of %v gave digest %x (%d points), first run %x (%d points)", full, d2, len(x2.pts), d, len(ns))
	} else {
		for i := range ns {
			if x2.pts[i].n != ns[i] {
				diverged("point %d has %d alternatives on replay, %d before (trace %v)", i, x2.pts[i].n, ns[i], full)
				break
			}
		}
	}
	x.forced = savedForced
}

// Replay runs the body once on a fixed choice list (extra points answer 0).
func Replay(choices []int, maxDev int, body Body) uint64 {
	e := &Explorer{MaxDev: 1 << 30, NShards: 1}
	f := make([]int32, len(choices))
	for i, c := range choices {
		f[i] = int32(c)
	}
	x := &X{e: e, forced: f, stopAt: -1, pts: make([]point, 0, traceCap)}
	return body(x, true)
}
