module verif

go 1.22.0

toolchain go1.23.5

require (
	github.com/graphql-go/graphql v0.0.0-00010101000000-000000000000
	golang.org/x/tools v0.29.0
)

require (
	golang.org/x/mod v0.22.0 // indirect
	golang.org/x/sync v0.10.0 // indirect
)

replace github.com/graphql-go/graphql => /repo
