// Command verif is E7 of DESIGN.md: it regenerates the instrumentation overlay from
// /repo's working tree, builds the worker binary against it, runs the shards of a check,
// merges their partial records into /verif/evidence/<id>.json and prints the verdict lines.
//
//	verif check <Cnn> [--tier quick|thorough]
//	verif replay <artefact.json>
//	verif build [--race]          (used by setup to warm the build cache)
package main

import (
	"bytes"
	"crypto/sha256"
	"encoding/json"
	"fmt"
	"os"
	"os/exec"
	"path/filepath"
	"runtime"
	"sort"
	"strconv"
	"strings"
	"sync"
	"time"

	"verif/instr"
	"verif/report"
)

const (
	verifDir = "/verif"
	repoDir  = "/repo"
)

// checks that need the scheduler build (-race, sync/chan/go rewrites)
var raceChecks = map[string]bool{"C07": true, "C15": true, "C16": true}

// per-tier internal deadlines handed to the workers (seconds)
var deadlines = map[string]int{"quick": 150, "thorough": 1500}

func goEnv() []string {
	env := os.Environ()
	env = append(env, "GOFLAGS=-mod=mod", "GOPROXY=off", "GOSUMDB=off", "GOTOOLCHAIN=local")
	return env
}

func fail(format string, a ...interface{}) {
	fmt.Fprintf(os.Stderr, "HARNESS-ERROR: "+format+"\n", a...)
	os.Exit(2)
}

type buildResult struct {
	bin   string
	work  string
	stats *instr.Stats
}

// build variants: plain (map seam + step counters), sched (map seam + scheduler rewrites),
// sched+race (the same under the race detector).
func build(race bool, tag string, patch map[string][]byte) (*buildResult, error) {
	return buildV(race, race, tag, patch)
}

func buildV(sched, race bool, tag string, patch map[string][]byte) (*buildResult, error) {
	work := filepath.Join(verifDir, ".work", fmt.Sprintf("%s-%d-%v%v", tag, os.Getpid(), sched, race))
	os.RemoveAll(work)
	if err := os.MkdirAll(work, 0o755); err != nil {
		return nil, err
	}
	opts := instr.Options{Repo: repoDir, ShimDir: filepath.Join(verifDir, "shim"), Work: work,
		MapSeam: true, Steps: !sched, Sched: sched, Dump: true, Patch: patch}
	ov, st, err := instr.Generate(opts)
	if err != nil {
		return nil, fmt.Errorf("instrument: %v", err)
	}
	bin := filepath.Join(work, "h")
	args := []string{"build", "-tags", "verif", "-overlay", ov, "-o", bin}
	if race {
		args = append(args, "-race")
	}
	args = append(args, "./h")
	cmd := exec.Command("go", args...)
	cmd.Dir = verifDir
	cmd.Env = goEnv()
	out, err := cmd.CombinedOutput()
	if err != nil {
		return nil, fmt.Errorf("go build failed: %v\n%s", err, out)
	}
	return &buildResult{bin: bin, work: work, stats: st}, nil
}

func nworkers() int {
	if s := os.Getenv("VERIF_WORKERS"); s != "" {
		if n, err := strconv.Atoi(s); err == nil && n > 0 {
			return n
		}
	}
	n := runtime.NumCPU()
	if n > 16 {
		n = 16
	}
	return n
}

func main() {
	if len(os.Args) < 2 {
		fail("usage: verif check <Cnn> [--tier quick|thorough] | replay <file> | build [--race]")
	}
	switch os.Args[1] {
	case "mutant-check":
		// internal: check <prop> with the patch given in the environment
		patchOverride = map[string][]byte{}
		if f := os.Getenv("VERIF_MUTANT_FILE"); f != "" {
			patchOverride[f] = []byte(os.Getenv("VERIF_MUTANT_NEW"))
		}
		if dir := os.Getenv("VERIF_PATCH_DIR"); dir != "" {
			// a directory of repo-relative replacement files (seeded changes)
			filepath.Walk(dir, func(path string, info os.FileInfo, err error) error {
				if err == nil && !info.IsDir() && strings.HasSuffix(path, ".go") {
					rel, _ := filepath.Rel(dir, path)
					b, _ := os.ReadFile(path)
					patchOverride[rel] = b
				}
				return nil
			})
		}
		mutantRun = true
		os.Exit(cmdCheck([]string{os.Args[2]}))
	case "check":
		os.Exit(cmdCheck(os.Args[2:]))
	case "replay":
		os.Exit(cmdReplay(os.Args[2:]))
	case "mutants":
		os.Exit(cmdMutants(os.Args[2:]))
	case "build":
		race := len(os.Args) > 2 && os.Args[2] == "--race"
		br, err := build(race, "warm", nil)
		if err != nil {
			fail("%v", err)
		}
		fmt.Printf("built %s (files=%d mapRanges=%d raw=%d go=%d chan=%d select=%d sync=%d steps=%d)\n", br.bin, br.stats.Files,
			br.stats.MapRanges, br.stats.MapRangesRaw, br.stats.GoStmts, br.stats.ChanOps, br.stats.Selects, br.stats.SyncImports, br.stats.StepSites)
		os.RemoveAll(br.work)
	default:
		fail("unknown command %q", os.Args[1])
	}
}

func cmdReplay(args []string) int {
	if len(args) < 1 {
		fail("usage: verif replay <file>")
	}
	b, err := os.ReadFile(args[0])
	if err != nil {
		fail("%v", err)
	}
	var payload map[string]interface{}
	if err := json.Unmarshal(b, &payload); err != nil {
		fail("%v", err)
	}
	id, _ := payload["check"].(string)
	br, err := build(raceChecks[id], "replay", nil)
	if err != nil {
		fail("%v", err)
	}
	defer os.RemoveAll(br.work)
	cmd := exec.Command(br.bin, "-replay", args[0])
	cmd.Stdout, cmd.Stderr = os.Stdout, os.Stderr
	cmd.Env = workerEnv(raceChecks[id], br.work, 0)
	if err := cmd.Run(); err != nil {
		if ee, ok := err.(*exec.ExitError); ok {
			return ee.ExitCode()
		}
		return 2
	}
	return 0
}

func workerEnv(race bool, work string, shard int) []string {
	env := os.Environ()
	if race {
		env = append(env, "GOMAXPROCS=1", fmt.Sprintf("GORACE=halt_on_error=0 log_path=%s/race-%d", work, shard))
	} else {
		env = append(env, "GOMAXPROCS=1")
	}
	return env
}

// patchOverride, when set, is applied through the overlay by every build (mutant self-test).
var patchOverride map[string][]byte
var quietCheck bool

// mutantRun: evidence and replay artefacts of a mutant run go to the work directory, not to
// /verif/evidence.
var mutantRun bool

func cmdCheck(args []string) int {
	if len(args) < 1 {
		fail("usage: verif check <Cnn> [--tier quick|thorough]")
	}
	id := args[0]
	tier := os.Getenv("VERIF_TIER")
	extra := ""
	for i := 1; i < len(args); i++ {
		switch args[i] {
		case "--tier":
			if i+1 < len(args) {
				tier = args[i+1]
				i++
			}
		case "--args":
			if i+1 < len(args) {
				extra = args[i+1]
				i++
			}
		}
	}
	if tier != "thorough" {
		tier = "quick"
	}
	seed, _ := strconv.ParseInt(os.Getenv("VERIF_SEED"), 10, 64)
	start := time.Now()
	race := raceChecks[id]
	br, err := build(race, id, patchOverride)
	if err != nil {
		if patchOverride != nil {
			fmt.Println("BUILD-FAILED:", oneLine(err.Error(), 400))
			return 3
		}
		fail("%v", err)
	}
	defer os.RemoveAll(br.work)
	buildS := time.Since(start).Seconds()

	n := nworkers()
	dl := deadlines[tier]
	if s := os.Getenv("VERIF_DEADLINE_S"); s != "" {
		if v, err := strconv.Atoi(s); err == nil {
			dl = v
		}
	}
	// Scheduler checks run in two passes: the logical oracles over the full preemption bound
	// on the scheduler build WITHOUT the race detector (8x faster), then the race oracle on
	// the -race build at a smaller bound (with the transparent hand-off a race is reported
	// in any schedule that executes both accesses, so few schedules are needed).
	type pass struct {
		br   *buildResult
		race bool
		n    int
	}
	passes := []pass{{br, race, n}}
	if race {
		nb, err := buildV(true, false, id+"-norace", patchOverride)
		if err != nil {
			fail("%v", err)
		}
		defer os.RemoveAll(nb.work)
		passes = []pass{{nb, false, n}, {br, true, n}}
		dl = dl / 2
	}
	var parts []*report.Part
	var errs []string
	for pi, ps := range passes {
		pp, ee := runWorkers(ps.br, ps.race, id, tier, extra, ps.n, dl, pi)
		parts = append(parts, pp...)
		errs = append(errs, ee...)
	}
	var good []*report.Part
	harnessBad := false
	for i := range parts {
		if errs[i] != "" {
			fmt.Fprintln(os.Stderr, "HARNESS-ERROR:", errs[i])
			harnessBad = true
		}
		if parts[i] != nil {
			good = append(good, parts[i])
		}
	}
	if len(good) == 0 {
		fail("no worker produced a report")
	}
	m := report.Merge(good)
	if len(m.HarnessErrors) > 0 {
		harnessBad = true
	}

	// race reports (scheduler builds): each distinct report is handed back to the worker
	// logic through the merged counters by the checks themselves; raw logs are summarised here
	raceNotes := collectRaceLogs(br.work)

	// verdict lines
	os.MkdirAll(filepath.Join(verifDir, "replays"), 0o755)
	var fids []string
	for k := range m.Findings {
		fids = append(fids, k)
	}
	sort.Strings(fids)
	for _, k := range fids {
		fmt.Printf("KNOWN-FINDING: property=%s %s observed=%d e.g. %s\n", id, k, m.Findings[k], oneLine(m.FindingEx[k], 300))
	}
	nviol := 0
	for _, v := range m.Violations {
		b, _ := json.MarshalIndent(v.Replay, "", " ")
		sum := sha256.Sum256(b)
		path := filepath.Join(verifDir, "replays", fmt.Sprintf("%s-%x.json", id, sum[:6]))
		if mutantRun {
			path = filepath.Join(br.work, fmt.Sprintf("%s-%x.json", id, sum[:6]))
		}
		os.WriteFile(path, b, 0o644)
		fmt.Printf("VIOLATION property=%s replay=%s\n", id, path)
		fmt.Printf("  what: %s\n", oneLine(v.What, 600))
		nviol++
	}

	wall := time.Since(start).Seconds()
	ev := map[string]interface{}{
		"property_id": id,
		"tier":        tier,
		"seed":        seed,
		"level":       "model_checking",
		"wall_s":      wall,
		"violations":  nviol,
		"assumptions": m.Assumptions,
		"coverage": map[string]interface{}{
			"states":                        m.States,
			"transitions":                   m.Transitions,
			"traces_validated_against_impl": m.Evaluations,
			"evaluations":                   m.Evaluations,
			"distinct_nontrivial":           m.DistinctNontrivial,
			"distinct_outcomes":             m.DistinctOutcomes,
			"rule":                          m.Rule,
			"samples":                       m.Samples,
			"exhaustive":                    m.Exhaustive && !harnessBad,
			"deadline_hit":                  m.DeadlineHit,
			"bounds_completed":              m.Bounds,
			"max_depth":                     m.MaxDepth,
			"shards":                        len(good),
			"replicated_top_of_tree":        m.Replicated,
			"determinism_rechecks":          m.Rechecks,
			"known_findings_seen":           m.Findings,
			"violations_total_occurrences":  m.ViolationN,
			"counters":                      m.Counters,
			"notes":                         m.Notes,
			"race_logs":                     raceNotes,
			"build_s":                       buildS,
			"instrumentation": map[string]interface{}{
				"files": br.stats.Files, "map_ranges": br.stats.MapRanges, "map_ranges_left": br.stats.Skipped,
				"go_stmts": br.stats.GoStmts, "chan_ops": br.stats.ChanOps, "selects": br.stats.Selects,
				"sync_imports": br.stats.SyncImports, "step_sites": br.stats.StepSites,
			},
		},
	}
	if m.Samples == nil {
		ev["coverage"].(map[string]interface{})["samples"] = []interface{}{}
	}
	b, _ := json.MarshalIndent(ev, "", " ")
	if !mutantRun {
		os.MkdirAll(filepath.Join(verifDir, "evidence"), 0o755)
		if err := os.WriteFile(filepath.Join(verifDir, "evidence", id+".json"), b, 0o644); err != nil {
			fail("%v", err)
		}
	}
	fmt.Printf("%s %s: states=%d transitions=%d executions=%d distinct_nontrivial=%d outcomes=%d exhaustive=%v violations=%d findings=%d wall=%.1fs (build %.1fs)\n",
		id, tier, m.States, m.Transitions, m.Evaluations, m.DistinctNontrivial, m.DistinctOutcomes, m.Exhaustive && !harnessBad, nviol, len(fids), wall, buildS)
	for _, nt := range m.Notes {
		fmt.Println("  note:", nt)
	}
	if nviol > 0 {
		return 1
	}
	if harnessBad {
		for _, e := range m.HarnessErrors {
			fmt.Fprintln(os.Stderr, "HARNESS-ERROR:", oneLine(e, 2000))
		}
		return 2
	}
	// vacuity guard
	if m.Evaluations == 0 || m.States == 0 {
		fmt.Fprintln(os.Stderr, "HARNESS-ERROR: vacuous run (no executions)")
		return 2
	}
	return 0
}

func runWorkers(br *buildResult, race bool, id, tier, extra string, n, dl, pass int) ([]*report.Part, []string) {
	parts := make([]*report.Part, n)
	errs := make([]string, n)
	var wg sync.WaitGroup
	for i := 0; i < n; i++ {
		wg.Add(1)
		go func(i int) {
			defer wg.Done()
			out := filepath.Join(br.work, fmt.Sprintf("part-%d.json", i))
			a := []string{"-check", id, "-tier", tier, "-shard", strconv.Itoa(i), "-nshards", strconv.Itoa(n), "-out", out,
				"-findings", filepath.Join(verifDir, "known_findings.json"), "-deadline", fmt.Sprintf("%ds", dl)}
			if extra != "" {
				a = append(a, "-args", extra)
			}
			// memory ceiling per worker; hang watchdog = internal deadline + grace
			sh := fmt.Sprintf("ulimit -v %d; exec \"$0\" \"$@\"", 6*1024*1024)
			cmd := exec.Command("/bin/sh", append([]string{"-c", sh, br.bin}, a...)...)
			if race {
				// the race runtime reserves a large virtual address range: no ulimit -v
				cmd = exec.Command(br.bin, a...)
			}
			cmd.Env = workerEnv(race, br.work, i)
			var stderr bytes.Buffer
			cmd.Stderr = &stderr
			cmd.Stdout = &stderr
			if err := cmd.Start(); err != nil {
				errs[i] = err.Error()
				return
			}
			done := make(chan error, 1)
			go func() { done <- cmd.Wait() }()
			select {
			case err := <-done:
				if err != nil {
					code := -1
					if ee, ok := err.(*exec.ExitError); ok {
						code = ee.ExitCode()
					}
					// race builds exit 66 when reports exist: not an error of the worker
					if !(race && code == 66) {
						errs[i] = fmt.Sprintf("worker %d: %v\n%s", i, err, tail(stderr.String(), 4000))
					}
				}
			case <-time.After(time.Duration(dl+120) * time.Second):
				cmd.Process.Kill()
				errs[i] = fmt.Sprintf("worker %d: killed by watchdog after %ds (hang)\n%s", i, dl+120, tail(stderr.String(), 2000))
			}
			p, err := report.Read(out)
			if err != nil {
				if errs[i] == "" {
					errs[i] = fmt.Sprintf("worker %d wrote no report: %v\n%s", i, err, tail(stderr.String(), 2000))
				}
				return
			}
			parts[i] = p
		}(i)
	}
	wg.Wait()
	return parts, errs
}

func collectRaceLogs(work string) []string {
	ms, _ := filepath.Glob(filepath.Join(work, "race-*"))
	var out []string
	for _, f := range ms {
		b, err := os.ReadFile(f)
		if err == nil && len(b) > 0 {
			out = append(out, fmt.Sprintf("%s: %d bytes", filepath.Base(f), len(b)))
		}
	}
	return out
}

func tail(s string, n int) string {
	if len(s) > n {
		return "..." + s[len(s)-n:]
	}
	return s
}

func oneLine(s string, n int) string {
	s = strings.ReplaceAll(s, "\n", "\\n")
	if len(s) > n {
		s = s[:n] + "..."
	}
	return s
}

type mutant struct {
	id, prop, file string
	old, new       string
}

func loadMutants(path string) ([]mutant, error) {
	b, err := os.ReadFile(path)
	if err != nil {
		return nil, err
	}
	var out []mutant
	var cur *mutant
	mode := 0
	for _, line := range strings.Split(string(b), "\n") {
		switch {
		case strings.HasPrefix(line, "=== ") && !strings.HasPrefix(line, "=== <"):
			f := strings.Fields(line[4:])
			if len(f) < 3 {
				continue
			}
			out = append(out, mutant{id: f[0], prop: f[1], file: f[2]})
			cur = &out[len(out)-1]
			mode = 0
		case line == "---" && cur != nil:
			mode = 1
		case line == "+++" && cur != nil:
			mode = 2
		default:
			if cur == nil {
				continue
			}
			if mode == 1 {
				cur.old += line + "\n"
			} else if mode == 2 {
				cur.new += line + "\n"
			}
		}
	}
	for i := range out {
		out[i].old = strings.TrimSuffix(out[i].old, "\n")
		out[i].new = strings.TrimSuffix(out[i].new, "\n")
	}
	return out, nil
}

// cmdMutants applies catalogue edits one at a time THROUGH THE OVERLAY (never to /repo) and
// runs the owning check: `verif mutants [id|Cnn ...]`.
func cmdMutants(args []string) int {
	ms, err := loadMutants(filepath.Join(verifDir, "mutants", "catalogue.txt"))
	if err != nil {
		fail("%v", err)
	}
	want := map[string]bool{}
	for _, a := range args {
		want[a] = true
	}
	missed := 0
	for _, m := range ms {
		if len(want) > 0 && !want[m.id] && !want[m.prop] {
			continue
		}
		props := strings.Split(m.prop, "/")
		src, err := os.ReadFile(filepath.Join(repoDir, m.file))
		if err != nil {
			fmt.Printf("%s %s: cannot read %s\n", m.id, m.prop, m.file)
			continue
		}
		if strings.Count(string(src), m.old) != 1 {
			fmt.Printf("%s %s: SKIP (old text occurs %d times in %s on the current tree)\n", m.id, m.prop, strings.Count(string(src), m.old), m.file)
			continue
		}
		patchOverride = map[string][]byte{m.file: []byte(strings.Replace(string(src), m.old, m.new, 1))}
		for _, prop := range props {
			// run the check in a child process so that its output can be summarised
			cmd := exec.Command(os.Args[0], "mutant-check", prop, m.id)
			cmd.Env = append(os.Environ(), "VERIF_MUTANT_FILE="+m.file, "VERIF_MUTANT_NEW="+string(patchOverride[m.file]))
			out, _ := cmd.CombinedOutput()
			code := cmd.ProcessState.ExitCode()
			verdict := "MISSED"
			if code == 1 {
				verdict = "caught"
			} else if code != 0 {
				verdict = fmt.Sprintf("exit %d", code)
			}
			if verdict != "caught" {
				missed++
			}
			first := ""
			for _, l := range strings.Split(string(out), "\n") {
				if strings.HasPrefix(l, "  what:") {
					first = l
					break
				}
			}
			fmt.Printf("%s %s: %s %s\n", m.id, prop, verdict, oneLine(first, 300))
		}
	}
	patchOverride = nil
	if missed > 0 {
		return 1
	}
	return 0
}
