#!/usr/bin/env python3
"""Regenerates MANIFEST.json from the table below (keeps it valid at all times)."""
import json, subprocess

CHECKS = {
 "C14": dict(engine="explorer", technique="bounded exhaustive enumeration of visitor policies (stateless DFS over choice sequences) against a reference walk",
   text="Every placement of up to 2 (quick) / 3 (thorough) skip/break actions at every reached (node, phase) of every pool document, in 6 registration forms and 3-4 parallel combinations, is executed on the real visitor and compared event-by-event (node identity, key, parent, path, ancestors) with a recursive reference walk; exhaustive within these bounds.",
   ref="5 C14", note="Pool of 10 documents covering every node kind; children = node-valued struct fields in source order (reflection, independent of the library's key table); parser trusted here (C03 checks it)."),
}
CHECKS["C01"] = dict(engine="explorer", technique="bounded exhaustive enumeration of (document, variables, resolver outcomes) by stateless DFS; real Do/Execute/PlanQuery+ExecutePlan compared with an independent interpreter of the spec's execution algorithm",
   text="Every valid-by-construction document over the kitchen schema within 3 (quick) / 4 (thorough) generator deviations (siblings that collide on a response key, aliases, 8 directive variants incl. variable-driven ones on fields, inline fragments and spreads, named fragments, argument forms incl. variables nested in lists/objects, variable defaults, operation shapes) x every assignment of its variables x every placement of 1 non-ok resolver outcome (nil, error, value+error, panic, thunk, failing thunk) x every runtime type of abstract positions is executed through the three entry points (one plan reused across assignments); data, error paths and the resolver call log must equal M-exec. Exhaustive within the deviation bound.",
   ref="5 C01", note="M-exec (verif/h/model/exec.go) is the trusted reference; documents additionally pass the library validator; errors inside already-nulled subtrees are optional as the property allows. Known findings C01-F1..F3, C04-F2 are attributed only when the model with that defect's emulation reproduces the observation.")
CHECKS["C20"] = dict(engine="explorer", technique="same bounded exhaustive enumeration as C01 with the per-invocation oracle: every ResolveParams/ResolveInfo/ResolveTypeParams field against M-exec's predicted invocation log, resolvers scribbling on their Args, one plan reused across variable assignments",
   text="For every case of the C01 space each resolver invocation is checked: at most once per response path, exactly once unless in a nulled subtree, source identity (list element / root), coerced args, field name, declared return type, runtime parent type, path, FieldASTs covering every included occurrence, operation, fragments, coerced variables, root value, schema, context; type resolvers get the completed value, the field's info and the context. Resolvers overwrite their Args map to expose aliasing of plan-owned maps across executions of the reused plan.",
   ref="5 C20", note="Same trusted base as C01.")
CHECKS["C07"] = dict(engine="scheduler", technique="stateless exploration of all thread interleavings at synchronisation granularity up to a preemption bound (cooperative scheduler over the instrumented library, happens-before state pruning), race detector active inside every explored schedule",
   text="10 (quick) / 13 (thorough) scenarios of 2-3 client threads issuing Do / ExecutePlan on a shared plan / PlanCache.Get+ExecutePlan (plain and normalising) / ValidateDocument / Reset against a schema, plan and cache that are cold in every execution; every schedule with <= 2 (quick) / 3 (thorough) preemptions; oracle per schedule: no race report, no panic, no deadlock, every response identical to the same operation run alone.",
   ref="5 C07", note="Scheduling points only at synchronisation operations (sound for data-race-free executions; the races themselves are reported by Go's race detector, which sees only the library's own synchronisation because the scheduler's hand-off is invisible to it). The -race pass uses one preemption less (two-pass runner).")
CHECKS["C13"] = dict(engine="explorer", technique="bounded exhaustive enumeration of mutation documents x resolver kinds x ALL iteration orders of the top-level response map (map-iteration seam), oracle on the event log",
   text="Every generated mutation (<= 4 top-level fields, aliases, duplicates merged by key, fragments, nested selections, lists) within 4 (quick) / 5 (thorough) deviations, resolver kind per invocation among plain / error / thunk / failing thunk at any depth, every permutation (n! for n <= 4) of every walk over the top-level result map and both orders of nested maps, through Do and a reused plan: in the event log (resolver and thunk invocations) all events of top-level field i precede all events of field j > i.",
   ref="5 C13", note="The instrumenter's map-range seam turns Go's map iteration order into an explorer choice; any key order is a legal Go order.")
CHECKS["C15"] = dict(engine="scheduler", technique="stateless exploration of all interleavings of producer / consumer / canceller / library forwarder / per-event executor goroutines up to a preemption bound, race detector active in every schedule, deadlock/leak detection at quiescence",
   text="58+ scenarios (request kind: valid / syntax error / validation error / Subscribe error, nil, plain value; 0-2 (3 thorough) events incl. a failing payload; producer closes or not; consumer reads all / one / none; cancellation or not) x every schedule with <= 2 (quick; 1 for >= 2 events) / 3 preemptions: delivered results are an in-order prefix of the per-event executions, the channel is closed after source close or cancellation, failing requests deliver exactly one error result, and after cancellation no library goroutine is parked.",
   ref="5 C15", note="Harness context is cancelled through a scheduler-visible close; a result may be the context error once the context is cancelled (C16).")
CHECKS["C16"] = dict(engine="scheduler", technique="stateless exploration of all interleavings of caller / gate releaser / canceller / library execution goroutine up to a preemption bound, race detector active in every schedule",
   text="Scenarios: 1-2 (3 thorough) gated resolvers that ignore or observe the context, 0..n gates opened, cancellation (Canceled / DeadlineExceeded) or none, entry Do or PlanQuery+ExecutePlan; every schedule with <= 2 / 3 preemptions: the call returns whenever it was cancelled or all gates opened, and the result is either the context error alone (no data) or a complete well-formed response; never partial data.",
   ref="5 C16", note="Logical synchronisation only (gates are channels owned by the scheduler); no wall-clock oracle.")
CHECKS["C04"] = dict(engine="explorer", technique="bounded exhaustive fault placement (stateless DFS over resolver/type-resolver outcome choices) over an enumerated family of nullability lattices, judged by an intrinsic schema-conformance oracle",
   text="All 7^3 wrapper combinations over a 3-level path x object/interface/union x 5 leaf types (5145 schemas) with every placement of 1 (quick) / 2 (thorough) faults, and a reduced family (3^3 x 3 x 2) with every placement of 2 / 3 faults, drawn from 20 adversarial outcomes (nil, typed nil, NaN, wrong-kind values, 2^31, unknown enum value, \"NaN\"/\"+Inf\" strings, error, value+error, panics with error/string/int, thunks that succeed / fail / return nil / panic, wrong-signature func) and wrong ResolveType answers: data has exactly the selected keys, every leaf is a legal serialisation or null, lists are lists, no null in a non-null position, nulls sit exactly at the nearest nullable ancestor of a fault, every explicit failure is null in data and has an error with its path, every error is explained by a fault, nothing outside faulted subtrees differs from the fault-free run, no resolver runs twice, the result marshals to JSON.",
   ref="5 C04", note="Intrinsic oracle only (no reference interpreter). Known finding C04-F2 (failure escaping through a thunk in a non-null position) is attributed only when data is null and such a thunk fault is present.")
CHECKS["C03"] = dict(engine="explorer", technique="exhaustive enumeration of token sequences by viable-prefix depth-first search over 6 alphabets (pruned only when both the model and the library reject before the last token), of all byte strings up to a bound over a 23-byte alphabet, and of literal payload / escape / number tables; each text parsed by the library and by an independent LL(1) model",
   text="~5*10^7 texts (quick): every token sequence up to 6 tokens over the full 37-symbol alphabet and up to 8-11 tokens over focused alphabets (executable, variable definitions, values, fragments/directives, type system), every sequence up to 3 (4) tokens unpruned, every byte string up to 5 (6) bytes over quotes/backslash/#/CR/LF/comma/dot/digits/e/u/braces/e-acute/BOM/tab alone and in two syntactic contexts, every block-string and string payload up to 6 units, all \\uXXXX over 10 hex/non-hex digits, all simple escapes, numeric edge forms. Oracle: accept iff derivable; on accept the complete tree (kinds, names, decoded values, order) and every node's byte span equal the model's; the source bytes are unchanged; token streams equal.",
   ref="5 C03, appendix A", note="M-syntax (verif/h/msyntax) encodes the target grammar; invalid UTF-8 and surrogate escapes are not judged; the empty document is not judged. Known finding C03-F2 (code-point offsets of Name tokens) is attributed only when the model with that defect's emulation reproduces the library's verdict and tree.")
CHECKS["C08"] = dict(engine="explorer", technique="exhaustive enumeration (viable-prefix DFS over token alphabets + literal payload tables) of parser-accepted documents; print/parse round-trip law checked on each",
   text="Every document the library parser accepts in the token enumeration (6 alphabets, 5-11 tokens) and 11 templates x every payload of up to 3 (4) units for quoted strings and block strings (quotes, backslashes, \\u0007, DEL, e-acute, U+1F600, triple quotes, CR/LF, tabs, indentation) in argument, default, directive-argument and description positions: print(ast) parses; the re-parsed AST is structurally identical; print is stable after one round; Print does not modify its input.",
   ref="5 C08", note="The parser itself is judged by C03.")
CHECKS["C09"] = dict(engine="explorer", technique="exhaustive enumeration of request texts (viable-prefix token DFS, character-unit and byte strings) and of parser-accepted ASTs handed unvalidated to every entry point; termination decided by a deterministic step counter, not by time",
   text="Every text of the token enumeration (6 alphabets, 3-10 tokens), every string of up to 4 (5) character units incl. BOM, e-acute, U+2028, U+0085, emoji, and up to 3 (4) raw bytes, alone and inside braces, goes to Do, Subscribe and PlanCache.Get (plain, normalising, nil); every parser-accepted AST goes unvalidated to ValidateDocument, PlanQuery, Execute, ExecuteSubscription and Print; 300+ fragment topologies with cycles through spreads and fields; variable maps holding 25 kinds of Go values; 14 zero-valued parameter calls. Oracle: no panic, call finishes within 400000 counted steps, result marshals to JSON, no data when parsing or validation failed, an error whenever data is absent.",
   ref="5 C09", note="Step counter = instrumenter-inserted increments at every function entry and loop body of the library. A 3 s wall-clock wait is used only when reading subscription channels (no source involved).")
CHECKS["C17"] = dict(engine="explorer", technique="bounded exhaustive fault placement: stateless DFS over which extension hooks panic (with which kind of value) and over the iteration order of the finish-function maps, oracle on each extension's event log",
   text="6 request outcomes (syntax error, validation error, variable error, field error, success, panicking resolver) x 1-3 extensions x every placement of <= 3 (4) deviations (2/3 with three extensions) among: a hook of any extension (Init, Parse/Validation/Execution/ResolveField start and finish, HasResult, GetResult) panicking with an error, a string or a struct, and a permuted iteration of a finish-function map. Oracle per extension: phases in pipeline order, properly nested, every started phase finished exactly once, the full expected log with the right finish arguments when nothing panics; every panic is reported as an error naming the extension; nothing escapes Do; every hook and resolver receives the caller's context.",
   ref="5 C17", note="Finish-map iteration order comes from the instrumenter's map-range seam.")
CHECKS["C06"] = dict(engine="bfs", technique="explicit-state breadth-first search over histories of cache operations on real PlanCache instances (state = dump of private state reached by replaying its shortest history on a fresh cache), differential oracle at every transition",
   text="7 configurations (MaxEntries 1, 2, default x Normalize off/on, nil cache) x operations Get+ExecutePlan over a pool of 29 requests built in colliding pairs (one literal, a directive, a default value, an alias, argument order, enum literals, repeated fields, strings mimicking the key encoding, literals inside fragments, operation names incl. unknown, a user variable named like a synthetic one, variable types differing in bracket placement, abstract positions) x 2 schema pointers x variable assignments, Reset and over-size Get, to depth 3 (4) for small caches and 2 (3) for the default size. At every transition: response through the cache == response from scratch (data, messages, paths); synthetic arguments do not clash with the request's; the same request from scratch still gives its answer afterwards; len(entries) <= MaxEntries; list and map agree; hits+misses grew by the number of lookups. Resolvers answer with the arguments they received and scribble on the map afterwards. Plus every sequence of 3 executions of one prepared plan with different variables.",
   ref="5 C06", note="State canonicalisation through the read-only dump hook in the overlay (verif_dump.go); error locations are not compared (they may refer to the normalised document).")
NOT_YET = {}
ALL = ["C%02d" % i for i in range(1, 21)]

def main():
    checks = []
    for pid in ALL:
        if pid not in CHECKS:
            continue
        c = CHECKS[pid]
        checks.append({
            "property_id": pid,
            "quick_cmd": "bin/verif check %s --tier quick" % pid,
            "thorough_cmd": "bin/verif check %s --tier thorough" % pid,
            "evidence_file": "/verif/evidence/%s.json" % pid,
            "replay_cmd_template": "bin/verif replay {path}",
            "engine": c["engine"],
            "level_claimed": {"category": "model_checking", "text": c["text"], "design_ref": c["ref"]},
            "level_note": c["note"],
            "technique": c["technique"],
        })
    na = [{"property_id": p, "reason": NOT_YET.get(p, "check not built yet in this session; design in DESIGN.md section 5")} for p in ALL if p not in CHECKS]
    m = {
        "version": 1,
        "setup_cmd": "cd /verif && export GOFLAGS=-mod=mod GOPROXY=off GOSUMDB=off GOTOOLCHAIN=local && mkdir -p bin && go build -o bin/verif ./cmd/verif && bin/verif build && bin/verif build --race",
        "hooks": {
            "guard": "verif (build tag) + go build -overlay generated from /repo's working tree on every run; /repo itself carries no hook code",
            "enable": "bin/verif regenerates /verif/.work/<run>/overlay.json with verif/instr (map-range seam, step counters, sync/go/chan/select rewrites, private-state dump file, shim packages vseam/vstep/vsched) and builds the worker with `go build -tags verif -overlay <overlay.json> [-race] ./h`",
            "baseline_off_cmd": "cd /repo && GOFLAGS=-mod=mod go test -vet=off -count=1 ./...",
            "source_commits": [],
            "add_only": True,
        },
        "engines": [
            {"name": "explorer", "path": "/verif/explore", "serves_properties": [p for p in ALL if p in CHECKS and CHECKS[p]["engine"] == "explorer"], "kind_free_text": "stateless deviation-bounded DFS over choice sequences driving the real entry points, sharded over 16 worker processes"},
            {"name": "scheduler", "path": "/verif/shim/vsched", "serves_properties": [p for p in ALL if p in CHECKS and CHECKS[p]["engine"] == "scheduler"], "kind_free_text": "cooperative scheduler owning every go/chan/select/mutex of the instrumented library, race-detector-transparent hand-off, schedules enumerated by the explorer up to a preemption bound"},
            {"name": "bfs", "path": "/verif/h", "serves_properties": [p for p in ALL if p in CHECKS and CHECKS[p]["engine"] == "bfs"], "kind_free_text": "explicit-state breadth-first search over operation histories replayed on fresh real objects, canonical state from dump hooks"},
        ],
        "checks": checks,
        "not_applicable": na,
        "notes": "See DESIGN.md. Known findings and fixes: /verif/known_findings.json.",
    }
    json.dump(m, open("/verif/MANIFEST.json", "w"), indent=1)
    print("checks:", len(checks), "not_applicable:", len(na))

main()
