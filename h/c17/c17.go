// Package c17 decides C17 (extension hooks are balanced, ordered and fault-isolated):
// request outcome x number of extensions x every placement of a bounded number of
// panicking hooks (with error, string and struct panic values) x every iteration order of
// the finish-function maps; oracle on each extension's event log.
package c17

import (
	"context"
	"encoding/json"
	"errors"
	"fmt"
	"strings"

	"github.com/graphql-go/graphql"
	"github.com/graphql-go/graphql/gqlerrors"
	"github.com/graphql-go/graphql/vseam"

	"verif/explore"
	"verif/h/core"
	"verif/report"
)

func init() { core.Register("C17", &core.Check{Run: run, Replay: replay}) }

type panicStruct struct{ Code int }

var panicVals = []interface{}{nil, errors.New("boom-error"), "boom-string", panicStruct{7}}
var panicNames = []string{"", "panic(error)", "panic(string)", "panic(struct)"}

type ext struct {
	name        string
	log         []string
	x           *explore.X
	panics      *[]string
	outcomeArgs map[string]string
}

func (e *ext) maybePanic(hook string) {
	k := e.x.Dev(len(panicVals), "panic")
	if k != 0 {
		*e.panics = append(*e.panics, fmt.Sprintf("%s.%s %s", e.name, hook, panicNames[k]))
		panic(panicVals[k])
	}
}

func (e *ext) ev(s string) { e.log = append(e.log, s) }

type ctxKey struct{}

var badCtx []string

func checkCtx(who string, ctx context.Context) {
	if ctx == nil {
		badCtx = append(badCtx, who+" received a nil context")
		return
	}
	if ctx.Value(ctxKey{}) != "caller" {
		badCtx = append(badCtx, who+" received a context that is not derived from the caller's")
	}
}

func (e *ext) Init(ctx context.Context, p *graphql.Params) context.Context {
	checkCtx(e.name+".Init", ctx)
	e.maybePanic("Init")
	e.ev("init")
	return ctx
}
func (e *ext) Name() string { return e.name }
func (e *ext) ParseDidStart(ctx context.Context) (context.Context, graphql.ParseFinishFunc) {
	checkCtx(e.name+".ParseDidStart", ctx)
	e.maybePanic("ParseDidStart")
	e.ev("parse.start")
	return ctx, func(err error) {
		e.ev(fmt.Sprintf("parse.finish err=%v", err != nil))
		e.maybePanic("ParseFinish")
	}
}
func (e *ext) ValidationDidStart(ctx context.Context) (context.Context, graphql.ValidationFinishFunc) {
	checkCtx(e.name+".ValidationDidStart", ctx)
	e.maybePanic("ValidationDidStart")
	e.ev("validation.start")
	return ctx, func(errs []gqlerrors.FormattedError) {
		e.ev(fmt.Sprintf("validation.finish errs=%v", len(errs) > 0))
		e.maybePanic("ValidationFinish")
	}
}
func (e *ext) ExecutionDidStart(ctx context.Context) (context.Context, graphql.ExecutionFinishFunc) {
	checkCtx(e.name+".ExecutionDidStart", ctx)
	e.maybePanic("ExecutionDidStart")
	e.ev("execution.start")
	return ctx, func(r *graphql.Result) {
		e.ev(fmt.Sprintf("execution.finish result=%v", r != nil))
		e.maybePanic("ExecutionFinish")
	}
}
func (e *ext) ResolveFieldDidStart(ctx context.Context, i *graphql.ResolveInfo) (context.Context, graphql.ResolveFieldFinishFunc) {
	checkCtx(e.name+".ResolveFieldDidStart", ctx)
	e.maybePanic("ResolveFieldDidStart")
	path := fmt.Sprint(i.Path.AsArray())
	e.ev("resolve.start " + path)
	return ctx, func(v interface{}, err error) {
		e.ev(fmt.Sprintf("resolve.finish %s err=%v", path, err != nil))
		e.maybePanic("ResolveFieldFinish")
	}
}
func (e *ext) HasResult() bool {
	e.maybePanic("HasResult")
	e.ev("hasResult")
	return true
}
func (e *ext) GetResult(ctx context.Context) interface{} {
	checkCtx(e.name+".GetResult", ctx)
	e.maybePanic("GetResult")
	e.ev("getResult")
	return e.name
}

type request struct {
	name, text     string
	vars           map[string]interface{}
	resolverPanics bool
}

var requests = []request{
	{name: "syntax error", text: "{ a "},
	{name: "validation error", text: "{ nope }"},
	{name: "variable error", text: "query($v: Int!) { f(x: $v) }"},
	{name: "field error", text: "{ a bad b }"},
	{name: "success", text: "{ a b }"},
	{name: "resolver panics", text: "{ a pan b }"},
	{name: "null in a non-null field", text: "{ a o { nn } b }"},
}

func schema(exts []graphql.Extension) (graphql.Schema, error) {
	q := graphql.NewObject(graphql.ObjectConfig{Name: "Query", Fields: graphql.Fields{
		"a":   &graphql.Field{Type: graphql.String, Resolve: func(p graphql.ResolveParams) (interface{}, error) { checkCtx("resolver a", p.Context); return "A", nil }},
		"b":   &graphql.Field{Type: graphql.Int, Resolve: func(p graphql.ResolveParams) (interface{}, error) { checkCtx("resolver b", p.Context); return 2, nil }},
		"bad": &graphql.Field{Type: graphql.String, Resolve: func(p graphql.ResolveParams) (interface{}, error) { return nil, errors.New("field failed") }},
		"pan": &graphql.Field{Type: graphql.String, Resolve: func(p graphql.ResolveParams) (interface{}, error) { panic(errors.New("resolver panicked")) }},
		"o": &graphql.Field{Type: graphql.NewObject(graphql.ObjectConfig{Name: "Obj", Fields: graphql.Fields{
			"nn": &graphql.Field{Type: graphql.NewNonNull(graphql.String), Resolve: func(p graphql.ResolveParams) (interface{}, error) { return nil, nil }}}}),
			Resolve: func(p graphql.ResolveParams) (interface{}, error) { return map[string]interface{}{}, nil }},
		"f": &graphql.Field{Type: graphql.String, Args: graphql.FieldConfigArgument{"x": &graphql.ArgumentConfig{Type: graphql.Int}},
			Resolve: func(p graphql.ResolveParams) (interface{}, error) { return "F", nil }},
	}})
	return graphql.NewSchema(graphql.SchemaConfig{Query: q, Extensions: exts})
}

type outcome struct {
	bad    string
	fid    string
	logs   [][]string
	panics []string
	result string
}

var curX *explore.X

func order(site string, keys []string) []int {
	if curX == nil || !strings.HasPrefix(site, "extensions.go:") || len(keys) > 3 {
		return nil
	}
	n := len(keys)
	f := 1
	for i := 2; i <= n; i++ {
		f *= i
	}
	k := curX.Dev(f, "finish-map order")
	// k-th permutation
	elems := make([]int, n)
	for i := range elems {
		elems[i] = i
	}
	out := make([]int, 0, n)
	for i := n; i >= 1; i-- {
		ff := 1
		for j := 2; j < i; j++ {
			ff *= j
		}
		j := k / ff
		k %= ff
		out = append(out, elems[j])
		elems = append(elems[:j], elems[j+1:]...)
	}
	return out
}

func execute(x *explore.X, req request, nExt int) outcome {
	curX = x
	defer func() { curX = nil }()
	var out outcome
	exts := make([]*ext, nExt)
	var gexts []graphql.Extension
	for i := range exts {
		exts[i] = &ext{name: fmt.Sprintf("e%d", i+1), x: x, panics: &out.panics}
		gexts = append(gexts, exts[i])
	}
	s, err := schema(gexts)
	if err != nil {
		out.bad = "HARNESS " + err.Error()
		return out
	}
	var r *graphql.Result
	func() {
		defer func() {
			if p := recover(); p != nil {
				out.bad = fmt.Sprintf("panic escaped graphql.Do: %v", p)
				for _, pn := range out.panics {
					if !strings.HasSuffix(pn, "panic(error)") {
						out.fid = "C17-F1"
					}
				}
			}
		}()
		badCtx = badCtx[:0]
		r = graphql.Do(graphql.Params{Schema: s, RequestString: req.text, VariableValues: req.vars, Context: context.WithValue(context.Background(), ctxKey{}, "caller")})
	}()
	if len(badCtx) > 0 && out.bad == "" {
		out.bad = badCtx[0]
	}
	for _, e := range exts {
		out.logs = append(out.logs, e.log)
	}
	if out.bad != "" {
		return out
	}
	b, jerr := json.Marshal(r)
	if jerr != nil {
		out.bad = "result not serialisable: " + jerr.Error()
		return out
	}
	out.result = string(b)
	// every panic is reported as an error in the result (naming the extension and the value)
	for _, pn := range out.panics {
		f := strings.Fields(pn) // e1.ParseDidStart panic(string)
		extName := f[0][:strings.IndexByte(f[0], '.')]
		val := map[string]string{"panic(error)": "boom-error", "panic(string)": "boom-string", "panic(struct)": "{7}"}[f[1]]
		found := false
		for _, fe := range r.Errors {
			if strings.Contains(fe.Message, extName+".") && strings.Contains(fe.Message, val) {
				found = true
			}
		}
		if !found {
			out.bad = fmt.Sprintf("the panic of %s is not reported as an error in the result (errors: %v)", pn, msgs(r))
			return out
		}
	}
	// per-extension log: ordered, nested, balanced
	for i, e := range exts {
		if d := balanced(e.log, req, len(out.panics) == 0); d != "" {
			out.bad = fmt.Sprintf("extension e%d: %s (log %v)", i+1, d, e.log)
			out.fid = classify(d, out.panics, req)
			return out
		}
	}
	// fault isolation: extensions that did not panic themselves observe the same pipeline
	faulty := map[string]bool{}
	abortingStart := false
	for _, pn := range out.panics {
		f := strings.Fields(pn)
		dot := strings.IndexByte(f[0], '.')
		faulty[f[0][:dot]] = true
		switch f[0][dot+1:] {
		case "HasResult", "GetResult", "ExecutionFinish", "ResolveFieldDidStart", "ResolveFieldFinish":
			// execution has been attempted by then: results are still collected
		default:
			// a failing hook of an earlier phase may legitimately end the pipeline early
			abortingStart = true
		}
	}
	var ref *ext
	for _, e := range exts {
		if faulty[e.name] {
			continue
		}
		if ref == nil {
			ref = e
			continue
		}
		if strings.Join(ref.log, "|") != strings.Join(e.log, "|") {
			out.bad = fmt.Sprintf("extensions %s and %s did not panic but were notified differently: %v against %v", ref.name, e.name, ref.log, e.log)
			return out
		}
	}
	// a panic during result collection does not take result collection away from the others
	if !abortingStart && req.name != "syntax error" && req.name != "validation error" {
		for _, e := range exts {
			own := ""
			for _, pn := range out.panics {
				if strings.HasPrefix(pn, e.name+".HasResult") || strings.HasPrefix(pn, e.name+".GetResult") {
					own = pn
				}
			}
			log := strings.Join(e.log, "|")
			if own == "" && !strings.HasSuffix(log, "hasResult|getResult") {
				out.bad = fmt.Sprintf("extension %s was not asked for its result although it never failed there (log %v, panics %v)", e.name, e.log, out.panics)
				return out
			}
			if strings.HasSuffix(log, "getResult") {
				if got, ok := r.Extensions[e.name]; !ok || got != e.name {
					out.bad = fmt.Sprintf("the result of extension %s is missing from the response's extensions (%v)", e.name, r.Extensions)
					return out
				}
			}
		}
	}
	return out
}

func msgs(r *graphql.Result) []string {
	var m []string
	for _, e := range r.Errors {
		m = append(m, e.Message)
	}
	return m
}

var phaseOrder = map[string]int{"init": 0, "parse": 1, "validation": 2, "execution": 3, "resolve": 3, "hasResult": 4, "getResult": 4}

// balanced checks one extension's log.
func balanced(log []string, req request, noPanics bool) string {
	open := []string{} // stack of open phases ("parse", "execution", "resolve [a]")
	maxPhase := -1
	counts := map[string]int{}
	for _, ev := range log {
		f := strings.Fields(ev)
		head := f[0]
		dot := strings.IndexByte(head, '.')
		phase, kind := head, ""
		if dot >= 0 {
			phase, kind = head[:dot], head[dot+1:]
		}
		key := phase
		if phase == "resolve" {
			key = "resolve " + f[1]
		}
		po := phaseOrder[phase]
		switch kind {
		case "", "start":
			if po < maxPhase {
				return fmt.Sprintf("%q after a later phase had begun", ev)
			}
			if phase == "resolve" {
				if len(open) == 0 || open[len(open)-1] != "execution" {
					return fmt.Sprintf("%q outside an open execution phase", ev)
				}
			} else if len(open) != 0 {
				return fmt.Sprintf("%q while phase %q is still open", ev, open[len(open)-1])
			}
			if po > maxPhase {
				maxPhase = po
			}
			if kind == "start" {
				counts[key]++
				if counts[key] > 1 {
					return fmt.Sprintf("%q started twice", key)
				}
				open = append(open, key)
			}
		case "finish":
			if len(open) == 0 || open[len(open)-1] != key {
				return fmt.Sprintf("%q does not close the innermost open phase %v", ev, open)
			}
			open = open[:len(open)-1]
		}
	}
	if len(open) > 0 {
		return fmt.Sprintf("started phase(s) %v never finished", open)
	}
	if !noPanics {
		return ""
	}
	// without panics the full pipeline for this outcome is expected, with the right finish arguments
	want := []string{"init", "parse.start"}
	switch req.name {
	case "syntax error":
		want = append(want, "parse.finish err=true")
	case "validation error":
		want = append(want, "parse.finish err=false", "validation.start", "validation.finish errs=true")
	default:
		want = append(want, "parse.finish err=false", "validation.start", "validation.finish errs=false", "execution.start")
		switch req.name {
		case "field error":
			want = append(want, "resolve.start [a]", "resolve.finish [a] err=false", "resolve.start [bad]", "resolve.finish [bad] err=true", "resolve.start [b]", "resolve.finish [b] err=false")
		case "success":
			want = append(want, "resolve.start [a]", "resolve.finish [a] err=false", "resolve.start [b]", "resolve.finish [b] err=false")
		case "null in a non-null field":
			// the resolvers return cleanly; the failure arises when the value is completed
			want = append(want, "resolve.start [a]", "resolve.finish [a] err=false", "resolve.start [o]", "resolve.finish [o] err=false", "resolve.start [o nn]", "resolve.finish [o nn] err=false", "resolve.start [b]", "resolve.finish [b] err=false")
		case "resolver panics":
			want = append(want, "resolve.start [a]", "resolve.finish [a] err=false", "resolve.start [pan]", "resolve.finish [pan] err=true", "resolve.start [b]", "resolve.finish [b] err=false")
		}
		want = append(want, "execution.finish result=true", "hasResult", "getResult")
	}
	if strings.Join(log, "|") != strings.Join(want, "|") {
		return fmt.Sprintf("without any panic the log should be %v", want)
	}
	return ""
}

func classify(d string, panics []string, req request) string {
	switch {
	case strings.Contains(d, "never finished") && len(panics) > 0:
		return "C17-F2"
	case req.name == "resolver panics" && (strings.Contains(d, "resolve") || strings.Contains(d, "never finished")):
		return "C17-F3"
	}
	return ""
}

func run(c *core.Ctx) {
	maxPanics := c.Pick(3, 4)
	c.R.Rule = "case = (request outcome among syntax error / validation error / variable error / field error / success / panicking resolver, 1-3 extensions, placement of <= k panicking hooks among Init, Parse/Validation/Execution/ResolveField start and finish, HasResult, GetResult of any extension with panic value error / string / struct, every iteration order of the finish-function maps); non-trivial = at least one panic or two extensions; distinct by choice trace"
	c.R.Assumptions = []string{"map-range seam: any key order is a legal Go map iteration order", "Go toolchain"}
	c.R.Bounds["deviations_panicking_hooks_plus_permuted_finish_maps"] = maxPanics
	vseam.OrderKeys = order
	idx := 0
	for ri, req := range requests {
		for nExt := 1; nExt <= 3; nExt++ {
			k := maxPanics
			if nExt == 3 {
				k = maxPanics - 1
			}
			idx++
			e := c.Explorer(k)
			req, ri, nExt := req, ri, nExt
			e.Run(func(x *explore.X, owned bool) uint64 {
				out := execute(x, req, nExt)
				dig := report.H(out.result + fmt.Sprint(out.logs) + out.bad)
				if !owned {
					return dig
				}
				c.R.Evaluations++
				c.R.States++
				c.R.Outcome(dig)
				if len(out.panics) > 0 || nExt > 1 {
					c.R.Nontriv(report.H(fmt.Sprint(ri, nExt, x.Trace())))
				}
				if c.R.WantSample() {
					c.R.Sample(map[string]interface{}{"request": req.text, "extensions": nExt, "panics": out.panics, "log_e1": out.logs[0], "result": out.result})
				}
				if strings.HasPrefix(out.bad, "HARNESS") {
					c.R.HarnessError("%s", out.bad)
				} else if out.bad != "" {
					c.Mismatch(out.fid, sigOf(out.bad), fmt.Sprintf("request %q (%s), %d extension(s), panics %v: %s", req.text, req.name, nExt, out.panics, out.bad),
						map[string]interface{}{"request": ri, "next": nExt, "choices": x.Trace()})
				}
				return dig
			})
			c.Absorb(e)
			if c.Expired() {
				return
			}
		}
	}
}

func sigOf(s string) string {
	f := strings.Fields(s)
	for i, w := range f {
		if strings.HasPrefix(w, "e") && len(w) <= 3 {
			f[i] = "eN"
		}
	}
	if len(f) > 7 {
		f = f[:7]
	}
	return strings.Join(f, " ")
}

func replay(c *core.Ctx, p map[string]interface{}) (bool, string) {
	ri := int(p["request"].(float64))
	nExt := int(p["next"].(float64))
	var choices []int
	for _, v := range p["choices"].([]interface{}) {
		choices = append(choices, int(v.(float64)))
	}
	vseam.OrderKeys = order
	var out outcome
	explore.Replay(choices, 0, func(x *explore.X, owned bool) uint64 {
		out = execute(x, requests[ri], nExt)
		return 0
	})
	if out.bad != "" {
		return false, out.bad
	}
	return true, fmt.Sprintf("hooks balanced and ordered; logs %v", out.logs)
}
