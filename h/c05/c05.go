// Package c05 decides C05 (variables and arguments are coerced per declared type before
// resolvers run): the full product of input types (to a wrapping depth) x JSON-like values
// x supply modes (variable, inline literal, variable default, argument default, nothing)
// is executed through graphql.Do and judged by the three-valued reference M-coerce.
package c05

import (
	"fmt"
	"math"
	"strings"

	"github.com/graphql-go/graphql"

	"verif/h/bridge"
	"verif/h/core"
	"verif/h/gen"
	"verif/h/model"
	"verif/report"
)

func init() { core.Register("C05", &core.Check{Run: run, Replay: replay}) }

var baseTypes = []string{"Int", "Float", "String", "Boolean", "ID", "E", "Custom", "In", "In2"}

func typeList(depth int) []*gen.TypeRef {
	var out []*gen.TypeRef
	var grow func(t *gen.TypeRef, d int)
	grow = func(t *gen.TypeRef, d int) {
		out = append(out, t)
		if d == 0 {
			return
		}
		if t.Kind != gen.TNonNull {
			grow(gen.NonNull(t), d-1)
		}
		grow(gen.ListOf(t), d-1)
	}
	for _, b := range baseTypes {
		grow(gen.Named(b), depth)
	}
	return out
}

type jv struct {
	name   string
	v      interface{}
	lit    string // literal spelling ("" = not expressible as a literal in this edition)
	absent bool
}

func values(thorough bool) []jv {
	m := func(kv ...interface{}) map[string]interface{} {
		o := map[string]interface{}{}
		for i := 0; i+1 < len(kv); i += 2 {
			o[kv[i].(string)] = kv[i+1]
		}
		return o
	}
	l := func(x ...interface{}) []interface{} { return append([]interface{}{}, x...) }
	vs := []jv{
		{name: "absent", absent: true},
		{name: "null", v: nil},
		{name: "true", v: true, lit: "true"},
		{name: "0", v: 0, lit: "0"},
		{name: "1", v: 1, lit: "1"},
		{name: "2^31", v: int(math.MaxInt32) + 1, lit: "2147483648"},
		{name: "-2^31-1", v: int(math.MinInt32) - 1, lit: "-2147483649"},
		{name: "3000000000", v: 3000000000, lit: "3000000000"},
		{name: "1.5", v: 1.5, lit: "1.5"},
		{name: `"x"`, v: "x", lit: `"x"`},
		{name: `"A"`, v: "A", lit: "A"}, // as a literal: the enum value A
		{name: `"1"`, v: "1", lit: `"1"`},
		{name: `"c:ok"`, v: "c:ok", lit: `"c:ok"`},
		{name: "[]", v: l(), lit: "[]"},
		{name: "[1]", v: l(1), lit: "[1]"},
		{name: "[null]", v: l(nil)},
		{name: "[[1]]", v: l(l(1)), lit: "[[1]]"},
		{name: "{}", v: m(), lit: "{}"},
		{name: "{a:1}", v: m("a", 1), lit: "{a: 1}"},
		{name: "{a:1,zz:2}", v: m("a", 1, "zz", 2), lit: "{a: 1, zz: 2}"},
		{name: "{a:null}", v: m("a", nil)},
		{name: "{a:1,d:{k:\"s\"}}", v: m("a", 1, "d", m("k", "s")), lit: `{a: 1, d: {k: "s"}}`},
		{name: "{a:1,b:[1,2],c:\"B\"}", v: m("a", 1, "b", l(1, 2), "c", "B"), lit: "{a: 1, b: [1, 2], c: B}"},
		{name: "{k:\"v\"}", v: m("k", "v"), lit: `{k: "v"}`},
		{name: "{a:\"x\"}", v: m("a", "x"), lit: `{a: "x"}`},
		{name: "{a:1,c:\"Z\"}", v: m("a", 1, "c", "Z"), lit: "{a: 1, c: Z}"},
		{name: "\"Z\"", v: "Z", lit: "Z"},
		// strings that a float parser accepts although they are not numbers
		{name: `"NaN"`, v: "NaN", lit: `"NaN"`},
		{name: `"Inf"`, v: "Inf", lit: `"Inf"`},
		{name: "{a:\"NaN\"}", v: m("a", "NaN"), lit: `{a: "NaN"}`},
		{name: "{}-through-variable", v: m(), lit: "{}"},
	}
	if thorough {
		vs = append(vs,
			jv{name: "[1,\"x\"]", v: l(1, "x"), lit: `[1, "x"]`},
			jv{name: "[[1],[2,3]]", v: l(l(1), l(2, 3)), lit: "[[1], [2, 3]]"},
			jv{name: "[{a:1},{a:2}]", v: l(m("a", 1), m("a", 2)), lit: "[{a: 1}, {a: 2}]"},
			jv{name: "{a:1,d:{k:1}}", v: m("a", 1, "d", m("k", 1)), lit: "{a: 1, d: {k: 1}}"},
			jv{name: "false", v: false, lit: "false"},
			jv{name: "-1", v: -1, lit: "-1"},
			jv{name: "1e3", v: 1000.0, lit: "1e3"},
		)
	}
	return vs
}

// literal parses the literal spelling into a gen.Value (for the model).
func (j jv) literal() gen.Value { return gen.ParseValue(j.lit) }

type hooks struct {
	calls int
	args  map[string]interface{}
}

func (h *hooks) Resolve(typeName string, f *gen.FieldDef, p graphql.ResolveParams) (interface{}, error) {
	h.calls++
	h.args = p.Args
	return "ok", nil
}
func (h *hooks) ResolveType(string, graphql.ResolveTypeParams) string                { return "" }
func (h *hooks) IsTypeOf(string, graphql.IsTypeOfParams) bool                        { return true }
func (h *hooks) Subscribe(*gen.FieldDef, graphql.ResolveParams) (interface{}, error) { return nil, nil }

type world struct {
	g     *gen.Schema
	b     *bridge.Built
	h     *hooks
	types []*gen.TypeRef
	defs  map[string]gen.Value // default-valued fields: name -> default literal
	// intField: the field whose argument has type Int
	intField string
}

func newWorld(depth int, vals []jv) (*world, error) {
	g := gen.Kitchen()
	w := &world{g: g, types: typeList(depth), defs: map[string]gen.Value{}}
	q := &gen.TypeDef{Kind: gen.KObject, Name: "Query"}
	for i, t := range w.types {
		if t.String() == "Int" {
			w.intField = fmt.Sprintf("t%d", i)
		}
		q.Fields = append(q.Fields, &gen.FieldDef{Name: fmt.Sprintf("t%d", i), Type: gen.Named("String"), Args: []*gen.ArgDef{{Name: "v", Type: t}}})
		// argument defaults: every conformant literal value
		for j, v := range vals {
			if v.lit == "" || model.LiteralVerdict(g, t, v.literal()) != model.Accept || t.IsNonNull() {
				continue
			}
			lv := v.literal()
			name := fmt.Sprintf("d%d_%d", i, j)
			q.Fields = append(q.Fields, &gen.FieldDef{Name: name, Type: gen.Named("String"), Args: []*gen.ArgDef{{Name: "v", Type: t, Default: &lv}}})
			w.defs[name] = lv
		}
	}
	// one field with several arguments, with and without argument defaults (the product of
	// supply modes per argument is explored by multiArgs)
	q.Fields = append(q.Fields, gen.F("mx(p:Int=7,q:E=A,r:[Int]=[1],s:In,u:String):String"))
	g.Types["Query"] = q
	b, err := bridge.Build(g, bridge.Options{})
	if err != nil {
		return nil, err
	}
	w.b = b
	w.h = &hooks{}
	b.H = w.h
	return w, nil
}

type result struct {
	hasData bool
	nErr    int
	calls   int
	args    string
	msg     string
	pan     interface{}
}

func (w *world) do(q string, vars map[string]interface{}) (r result) {
	w.h.calls, w.h.args = 0, nil
	defer func() {
		if p := recover(); p != nil {
			r.pan = p
		}
	}()
	res := graphql.Do(graphql.Params{Schema: w.b.Schema, RequestString: q, VariableValues: vars})
	r.hasData = res.Data != nil
	if m, ok := res.Data.(map[string]interface{}); ok && m == nil {
		r.hasData = false
	}
	r.nErr = len(res.Errors)
	if r.nErr > 0 {
		r.msg = res.Errors[0].Message
	}
	r.calls = w.h.calls
	if w.h.args != nil {
		r.args = model.Canon(map[string]interface{}(w.h.args))
	}
	return
}

func expectArgs(v interface{}) string {
	m := map[string]interface{}{}
	if v != nil {
		m["v"] = v
	}
	return model.Canon(m)
}

// judge one (type, value) in every mode; returns mismatch descriptions.
func (w *world) judge(ti int, j jv, vi int) (bads []string, evals int, fids []string) {
	t := w.types[ti]
	field := fmt.Sprintf("t%d", ti)
	add := func(fid, format string, a ...interface{}) {
		bads = append(bads, fmt.Sprintf(format, a...))
		fids = append(fids, fid)
	}
	reject := func(mode string, r result) {
		if r.pan != nil {
			add("", "%s: panic %v", mode, r.pan)
		} else if r.hasData || r.nErr == 0 || r.calls != 0 {
			add("", "%s: must be rejected (error, no data, no resolver call) but data=%v errors=%d resolver_calls=%d", mode, r.hasData, r.nErr, r.calls)
		}
	}
	accept := func(mode string, r result, want string) {
		if r.pan != nil {
			add("", "%s: panic %v", mode, r.pan)
		} else if r.nErr != 0 || !r.hasData {
			add("", "%s: a type-conformant value must be accepted but got error %q", mode, r.msg)
		} else if r.calls != 1 || r.args != want {
			add("", "%s: resolver got args %s (%d calls), expected %s", mode, r.args, r.calls, want)
		}
	}
	// mode: variable
	vars := map[string]interface{}{}
	if !j.absent {
		vars["v"] = j.v
	}
	q := fmt.Sprintf("query($v: %s) { %s(v: $v) }", t, field)
	cv, vd := model.CoerceInput(w.g, t, j.v)
	if j.absent && t.IsNonNull() {
		vd = model.Reject
	}
	evals++
	snapshot := model.Canon(vars)
	rv := w.do(q, vars)
	if after := model.Canon(vars); after != snapshot {
		add("", "variable $v:%s = %s: the caller's variable map was modified: %s -> %s", t, j.name, snapshot, after)
	} else if vd == model.Accept {
		// history: the same map serves a second request
		evals++
		if r2 := w.do(q, vars); r2.args != rv.args || r2.nErr != rv.nErr {
			add("", "variable $v:%s = %s: a second request with the same variable map differs: args %s then %s", t, j.name, rv.args, r2.args)
		}
	}
	switch vd {
	case model.Reject:
		reject(fmt.Sprintf("variable $v:%s = %s", t, j.name), rv)
		// the same bad variable followed by a good one: the request is still rejected
		if w.intField != "" {
			evals++
			q2 := fmt.Sprintf("query($v: %s, $z: Int = 1) { %s(v: $v) z: %s(v: $z) }", t, field, w.intField)
			reject(fmt.Sprintf("variable $v:%s = %s followed by a valid variable", t, j.name), w.do(q2, vars))
		}
	case model.Accept:
		accept(fmt.Sprintf("variable $v:%s = %s", t, j.name), rv, expectArgs(cv))
	}
	if j.lit == "" {
		return
	}
	// mode: inline literal
	lv := j.literal()
	lvd := model.LiteralVerdict(w.g, t, lv)
	evals++
	rl := w.do(fmt.Sprintf("{ %s(v: %s) }", field, j.lit), nil)
	mode := fmt.Sprintf("literal %s for %s", j.lit, t)
	switch lvd {
	case model.Reject:
		before := len(bads)
		reject(mode, rl)
		if len(bads) > before && t.Base() == "Int" && strings.Contains(j.lit, "000000") {
			fids[len(fids)-1] = "C05-F1"
		}
	case model.Accept:
		want := expectArgs(model.LiteralValue(w.g, t, lv, nil))
		accept(mode, rl, want)
		// literal == variable for the same conformant value
		if vd == model.Accept && rv.nErr == 0 && rl.nErr == 0 && rv.args != rl.args && !(t.Base() == "E" || strings.Contains(j.lit, "c: B") || j.lit == "A") {
			add("", "%s: as a literal the resolver gets %s, as a variable %s", mode, rl.args, rv.args)
		}
	}
	// mode: variable default (nullable variable types only in this edition)
	if !t.IsNonNull() && lvd != model.Unspecified {
		evals++
		rd := w.do(fmt.Sprintf("query($v: %s = %s) { %s(v: $v) }", t, j.lit, field), nil)
		mode := fmt.Sprintf("variable default %s for %s", j.lit, t)
		if lvd == model.Reject {
			reject(mode, rd)
		} else {
			accept(mode, rd, expectArgs(model.LiteralValue(w.g, t, lv, nil)))
		}
	}
	// mode: argument default
	if name := fmt.Sprintf("d%d_%d", ti, vi); lvd == model.Accept {
		if def, ok := w.defs[name]; ok {
			evals++
			accept(fmt.Sprintf("argument default %s for %s", j.lit, t), w.do("{ "+name+" }", nil), expectArgs(model.LiteralValue(w.g, t, def, nil)))
			// an explicit variable without value falls back to the argument default
			evals++
			accept(fmt.Sprintf("argument default %s for %s behind an unset variable", j.lit, t), w.do(fmt.Sprintf("query($v: %s) { %s(v: $v) }", t, name), nil), expectArgs(model.LiteralValue(w.g, t, def, nil)))
		}
	}
	return
}

func run(c *core.Ctx) {
	depth := c.Pick(3, 4)
	vals := values(!c.Quick())
	w, err := newWorld(depth, vals)
	if err != nil {
		c.R.HarnessError("fixture: %v", err)
		return
	}
	c.R.Rule = "case = (input type: 9 named types x every NonNull/List wrapping to the depth bound, JSON-like value from the pool, supply mode: variable / inline literal / variable default / argument default / argument default behind an unset variable / nothing); verdict of the three-valued reference: must-reject (error, no data, resolver not invoked), must-accept (resolver receives exactly the model's argument map; literal and variable agree), unspecified (not judged); non-trivial = verdict is accept or reject"
	c.R.Assumptions = []string{"M-coerce (verif/h/model/coerce.go) follows the property text literally: only the listed rejection classes and type-conformant acceptance are judged", "Go toolchain"}
	c.R.Bounds["wrapping_depth"] = depth
	c.R.Bounds["types"] = len(w.types)
	c.R.Bounds["values"] = len(vals)
	idx := 0
	for ti, t := range w.types {
		for vi, j := range vals {
			if !c.Mine(idx) {
				idx++
				continue
			}
			idx++
			bads, evals, fids := w.judge(ti, j, vi)
			c.R.Evaluations += uint64(evals)
			c.R.States++
			c.R.Transitions += uint64(evals)
			_, vd := model.CoerceInput(w.g, t, j.v)
			if vd != model.Unspecified {
				c.R.Nontriv(report.H(fmt.Sprint(ti, vi)))
			}
			if c.R.WantSample() {
				c.R.Sample(map[string]interface{}{"type": t.String(), "value": j.name, "variable_verdict": vd.String()})
			}
			for k, b := range bads {
				c.Mismatch(fids[k], sigOf(b, t), fmt.Sprintf("type %s value %s: %s", t, j.name, b), map[string]interface{}{"type": ti, "value": vi, "depth": depth, "thorough": !c.Quick()})
			}
		}
	}
	// variables nested inside literals (object fields after constants, list items)
	nested := []struct {
		q    string
		vars []string
		lit  string
		typ  string
	}{
		// the variable is not in the last field / item
		{q: `query($a: Int!) { TF(v: {a: $a, b: [1]}) }`, vars: []string{"a"}, lit: "{a: $a, b: [1]}"},
		{q: `query($c: E) { TF(v: {c: $c, a: 1}) }`, vars: []string{"c"}, lit: "{c: $c, a: 1}"},
		{q: `query($k: String) { TF(v: {d: {k: $k}, a: 3, b: [2]}) }`, vars: []string{"k"}, lit: "{d: {k: $k}, a: 3, b: [2]}"},
		{q: `query($i: Int) { TF(v: {b: [$i, 1], a: 2}) }`, vars: []string{"i"}, lit: "{b: [$i, 1], a: 2}"},
		// variables below lists of objects and lists of lists
		{q: `query($i: Int) { TF(v: [{a: 1, b: [$i]}, {a: 2}]) }`, vars: []string{"i"}, lit: "[{a: 1, b: [$i]}, {a: 2}]", typ: "[In]"},
		{q: `query($a: Int!) { TF(v: [{a: $a}]) }`, vars: []string{"a"}, lit: "[{a: $a}]", typ: "[In]"},
		{q: `query($i: Int) { TF(v: [[1, $i], [2]]) }`, vars: []string{"i"}, lit: "[[1, $i], [2]]", typ: "[[Int]]"},
		{q: `query($i: Int) { TF(v: [[$i]]) }`, vars: []string{"i"}, lit: "[[$i]]", typ: "[[Int]]"},
		// a single item standing for a list, with variables inside
		{q: `query($a: Int!) { TF(v: {a: $a, b: [1]}) }`, vars: []string{"a"}, lit: "{a: $a, b: [1]}", typ: "[In]"},
		{q: `query($i: Int) { TF(v: {a: 1, b: [$i]}) }`, vars: []string{"i"}, lit: "{a: 1, b: [$i]}", typ: "[In]"},
		// empty lists through variables
		{q: `query($b: [Int]) { TF(v: {a: 1, b: $b}) }`, vars: []string{"b"}, lit: "{a: 1, b: $b}"},
		{q: `query($l: [[Int]]) { TF(v: $l) }`, vars: []string{"l"}, lit: "$l", typ: "[[Int]]"},
		{q: `query($b: [Int], $c: E) { TF(v: {a: 1, b: $b, c: $c}) }`, vars: []string{"b", "c"}, lit: "{a: 1, b: $b, c: $c}"},
		{q: `query($c: E) { TF(v: {a: 1, c: $c}) }`, vars: []string{"c"}, lit: "{a: 1, c: $c}"},
		{q: `query($i: Int) { TF(v: {a: 2, b: [1, $i]}) }`, vars: []string{"i"}, lit: "{a: 2, b: [1, $i]}"},
		{q: `query($k: String) { TF(v: {a: 3, d: {k: $k}}) }`, vars: []string{"k"}, lit: "{a: 3, d: {k: $k}}"},
		{q: `query($a: Int!) { TF(v: {b: [], a: $a}) }`, vars: []string{"a"}, lit: "{b: [], a: $a}"},
	}
	dom := map[string][]interface{}{"b": {nil, []interface{}{1, 2}, []interface{}{}}, "c": {nil, "B"}, "i": {nil, 5}, "k": {nil, "s"}, "a": {7},
		"l": {nil, []interface{}{}, []interface{}{[]interface{}{}, []interface{}{1}}}}
	vtypes := map[string]*gen.TypeRef{"b": gen.ParseType("[Int]"), "c": gen.Named("E"), "i": gen.Named("Int"), "k": gen.Named("String"), "a": gen.ParseType("Int!"), "l": gen.ParseType("[[Int]]")}
	typeIdx := map[string]int{}
	for ti, t := range w.types {
		typeIdx[t.String()] = ti
	}
	for ni, n := range nested {
		if n.typ == "" {
			n.typ = "In"
		}
		inIdx, ok := typeIdx[n.typ]
		if !c.Mine(ni) {
			continue
		}
		if !ok {
			c.R.HarnessError("nested case %d: type %s is not in the type list", ni, n.typ)
			continue
		}
		q := strings.Replace(n.q, "TF", fmt.Sprintf("t%d", inIdx), 1)
		combos := 1
		for _, v := range n.vars {
			combos *= len(dom[v])
		}
		for k := 0; k < combos; k++ {
			vars, coerced := map[string]interface{}{}, map[string]interface{}{}
			kk := k
			for _, v := range n.vars {
				val := dom[v][kk%len(dom[v])]
				kk /= len(dom[v])
				if val != nil {
					vars[v] = val
					cv, _ := model.CoerceInput(w.g, vtypes[v], val)
					coerced[v] = cv
				}
			}
			want := expectArgs(model.LiteralValue(w.g, gen.ParseType(n.typ), gen.ParseValue(n.lit), coerced))
			r := w.do(q, vars)
			c.R.Evaluations++
			c.R.States++
			if r.nErr != 0 || r.args != want {
				c.Mismatch("", "nested "+fmt.Sprint(ni), fmt.Sprintf("%s with %s: resolver got %s (error %q), expected %s", q, model.Canon(vars), r.args, r.msg, want), map[string]interface{}{"nested": ni})
			}
		}
	}
	w.multiArgs(c)
	// nothing supplied at all: nullable arguments are simply absent, non-null ones rejected
	for ti, t := range w.types {
		if !c.Mine(ti) {
			continue
		}
		r := w.do(fmt.Sprintf("{ t%d }", ti), nil)
		c.R.Evaluations++
		if t.IsNonNull() {
			if r.hasData || r.nErr == 0 || r.calls != 0 {
				c.Mismatch("", "missing required argument", fmt.Sprintf("type %s: a required argument may be omitted", t), map[string]interface{}{"type": ti, "value": 0, "depth": depth})
			}
		} else if r.nErr != 0 || r.args != "{}" {
			c.Mismatch("", "absent nullable argument", fmt.Sprintf("type %s: without the argument the resolver got %s (errors %d)", t, r.args, r.nErr), map[string]interface{}{"type": ti, "value": 0, "depth": depth})
		}
	}
}

// multiArgs: one field with five arguments; every assignment of a supply mode (absent,
// literal, variable with a value, variable left unset, variable with its own default) to
// every argument. Arguments are coerced independently: each must arrive as the model says
// whatever the others are.
func (w *world) multiArgs(c *core.Ctx) {
	type arg struct {
		name, typ, def, lit string
		val              interface{}
		vdef             string
	}
	args := []arg{
		{"p", "Int", "7", "3", 5, "9"},
		{"q", "E", "A", "B", "B", "B"},
		{"r", "[Int]", "[1]", "[2, 3]", 4, "[5]"},
		{"s", "In", "", "{a: 1}", map[string]interface{}{"a": 2, "b": []interface{}{1}}, "{a: 3}"},
		{"u", "String", "", `"x"`, "y", `"z"`},
	}
	const modes = 5
	total := 1
	for range args {
		total *= modes
	}
	c.R.Bounds["multi_argument_supply_mode_assignments"] = total
	for k := 0; k < total; k++ {
		if !c.Mine(k) {
			continue
		}
		var defs, uses []string
		vars := map[string]interface{}{}
		want := map[string]interface{}{}
		kk := k
		for _, a := range args {
			m := kk % modes
			kk /= modes
			t := gen.ParseType(a.typ)
			fromDefault := func() {
				if a.def != "" {
					want[a.name] = model.LiteralValue(w.g, t, gen.ParseValue(a.def), nil)
				}
			}
			switch m {
			case 0: // absent
				fromDefault()
			case 1: // literal
				uses = append(uses, a.name+": "+a.lit)
				want[a.name] = model.LiteralValue(w.g, t, gen.ParseValue(a.lit), nil)
			case 2: // variable with a value
				defs = append(defs, "$"+a.name+": "+a.typ)
				uses = append(uses, a.name+": $"+a.name)
				vars[a.name] = a.val
				cv, _ := model.CoerceInput(w.g, t, a.val)
				want[a.name] = cv
			case 3: // variable left unset
				defs = append(defs, "$"+a.name+": "+a.typ)
				uses = append(uses, a.name+": $"+a.name)
				fromDefault()
			case 4: // variable with its own default, no value
				defs = append(defs, "$"+a.name+": "+a.typ+" = "+a.vdef)
				uses = append(uses, a.name+": $"+a.name)
				want[a.name] = model.LiteralValue(w.g, t, gen.ParseValue(a.vdef), nil)
			}
		}
		q := "{ mx }"
		if len(uses) > 0 {
			q = "{ mx(" + strings.Join(uses, ", ") + ") }"
			if len(defs) > 0 {
				q = "query(" + strings.Join(defs, ", ") + ") " + q
			}
		}
		r := w.do(q, vars)
		c.R.Evaluations++
		c.R.States++
		c.R.Nontriv(report.H("multi" + fmt.Sprint(k)))
		if wantS := model.Canon(want); r.nErr != 0 || r.args != wantS {
			c.Mismatch("", "multi-argument field", fmt.Sprintf("%s with %s: resolver got %s (error %q), expected %s", q, model.Canon(vars), r.args, r.msg, wantS), map[string]interface{}{"multi": k})
		}
	}
}

func sigOf(b string, t *gen.TypeRef) string {
	f := strings.Fields(b)
	if len(f) > 2 {
		f = f[:2]
	}
	rest := b
	if i := strings.Index(b, ": "); i >= 0 {
		rest = b[i+2:]
	}
	g := strings.Fields(rest)
	if len(g) > 6 {
		g = g[:6]
	}
	return strings.Join(f, " ") + "|" + t.Base() + "|" + strings.Join(g, " ")
}

func replay(c *core.Ctx, p map[string]interface{}) (bool, string) {
	if _, ok := p["depth"]; !ok {
		return false, "nested-variable / multi-argument case: re-run the check to reproduce"
	}
	depth := int(p["depth"].(float64))
	th, _ := p["thorough"].(bool)
	vals := values(th)
	w, err := newWorld(depth, vals)
	if err != nil {
		return false, err.Error()
	}
	ti, vi := int(p["type"].(float64)), int(p["value"].(float64))
	bads, _, _ := w.judge(ti, vals[vi], vi)
	if len(bads) > 0 {
		return false, fmt.Sprintf("type %s value %s: %s", w.types[ti], vals[vi].name, strings.Join(bads, "; "))
	}
	return true, "coercion follows the reference"
}
