// Package c02 decides C02: validation accepts exactly the documents that satisfy every
// validation rule; each exported rule, run alone, reports (at the offending node) exactly
// when M-rules says the rule is violated.
package c02

import (
	"fmt"
	"sort"
	"strings"

	"github.com/graphql-go/graphql"
	"github.com/graphql-go/graphql/gqlerrors"

	"verif/explore"
	"verif/h/bridge"
	"verif/h/core"
	"verif/h/execx"
	"verif/h/gen"
	"verif/h/mrules"
	"verif/report"
)

func init() { core.Register("C02", &core.Check{Run: run, Replay: replay}) }

var libRules = map[string]graphql.ValidationRuleFn{
	"ArgumentsOfCorrectType":       graphql.ArgumentsOfCorrectTypeRule,
	"DefaultValuesOfCorrectType":   graphql.DefaultValuesOfCorrectTypeRule,
	"FieldsOnCorrectType":          graphql.FieldsOnCorrectTypeRule,
	"FragmentsOnCompositeTypes":    graphql.FragmentsOnCompositeTypesRule,
	"KnownArgumentNames":           graphql.KnownArgumentNamesRule,
	"KnownDirectives":              graphql.KnownDirectivesRule,
	"KnownFragmentNames":           graphql.KnownFragmentNamesRule,
	"KnownTypeNames":               graphql.KnownTypeNamesRule,
	"LoneAnonymousOperation":       graphql.LoneAnonymousOperationRule,
	"NoFragmentCycles":             graphql.NoFragmentCyclesRule,
	"NoUndefinedVariables":         graphql.NoUndefinedVariablesRule,
	"NoUnusedFragments":            graphql.NoUnusedFragmentsRule,
	"NoUnusedVariables":            graphql.NoUnusedVariablesRule,
	"OverlappingFieldsCanBeMerged": graphql.OverlappingFieldsCanBeMergedRule,
	"PossibleFragmentSpreads":      graphql.PossibleFragmentSpreadsRule,
	"ProvidedNonNullArguments":     graphql.ProvidedNonNullArgumentsRule,
	"ScalarLeafs":                  graphql.ScalarLeafsRule,
	"UniqueArgumentNames":          graphql.UniqueArgumentNamesRule,
	"UniqueFragmentNames":          graphql.UniqueFragmentNamesRule,
	"UniqueInputFieldNames":        graphql.UniqueInputFieldNamesRule,
	"UniqueOperationNames":         graphql.UniqueOperationNamesRule,
	"UniqueVariableNames":          graphql.UniqueVariableNamesRule,
	"VariablesAreInputTypes":       graphql.VariablesAreInputTypesRule,
	"VariablesInAllowedPosition":   graphql.VariablesInAllowedPositionRule,
}

// Schema is the kitchen schema plus fields with a required argument and one argument of
// every input type shape.
func Schema() *gen.Schema { return gen.KitchenArgs() }

type env struct {
	c *core.Ctx
	f *execx.Fixture
	s *gen.Schema
}

func guard(fn func()) (bad string) {
	defer func() {
		if r := recover(); r != nil {
			bad = fmt.Sprintf("panic: %v", r)
		}
	}()
	fn()
	return ""
}

// offset converts a 1-based (line, column) location to a byte offset (documents are ASCII).
func offset(text string, lLine, lColumn int) int {
	if lLine < 1 || lColumn < 1 {
		return -1
	}
	line, off := 1, 0
	for line < lLine {
		i := strings.IndexByte(text[off:], '\n')
		if i < 0 {
			return -1
		}
		off += i + 1
		line++
	}
	off += lColumn - 1
	if off > len(text) {
		return -1
	}
	return off
}

func locOK(text string, errs []gqlerrors.FormattedError, at []string) string {
	for _, e := range errs {
		if e.Message == "" {
			return "an error without message"
		}
		if len(e.Locations) == 0 {
			return fmt.Sprintf("error %q carries no location", e.Message)
		}
		for _, l := range e.Locations {
			off := offset(text, l.Line, l.Column)
			if off < 0 || off >= len(text) {
				return fmt.Sprintf("error %q located at %d:%d, outside the document", e.Message, l.Line, l.Column)
			}
			if at == nil {
				continue
			}
			ok := false
			for _, p := range at {
				if strings.HasPrefix(text[off:], p) {
					ok = true
					break
				}
			}
			if !ok {
				rest := text[off:]
				if len(rest) > 12 {
					rest = rest[:12]
				}
				return fmt.Sprintf("error %q located at %d:%d (%q...), not at an offending node (expected one starting with %q)", e.Message, l.Line, l.Column, rest, at)
			}
		}
	}
	return ""
}

type verdict struct {
	bad  string
	rule string
}

// judge validates one document every way and compares with M-rules.
func (v *env) judge(d *gen.Doc, text string, withDo bool) (out []verdict, mv mrules.Violations) {
	doc, err := execx.Parse(text)
	if err != nil {
		return []verdict{{"generated document does not parse: " + err.Error(), "parse"}}, nil
	}
	mv, unspec := mrules.CheckU(v.s, d)
	sch := &v.f.B.Schema
	for _, name := range mrules.RuleNames {
		var res graphql.ValidationResult
		if bad := guard(func() { res = graphql.ValidateDocument(sch, doc, []graphql.ValidationRuleFn{libRules[name]}) }); bad != "" {
			out = append(out, verdict{fmt.Sprintf("rule %s alone: %s", name, bad), name})
			continue
		}
		if unspec[name] {
			continue // the document leaves this rule's verdict open
		}
		want := len(mv[name]) > 0
		got := !res.IsValid
		if got != (len(res.Errors) > 0) {
			out = append(out, verdict{fmt.Sprintf("rule %s alone: IsValid=%v with %d errors", name, res.IsValid, len(res.Errors)), name})
			continue
		}
		if want && !got {
			out = append(out, verdict{fmt.Sprintf("rule %s alone reports nothing, but the rule is violated: %s", name, mv[name][0].What), name})
			continue
		}
		if !want && got {
			out = append(out, verdict{fmt.Sprintf("rule %s alone reports %q, but the rule is satisfied", name, res.Errors[0].Message), name})
			continue
		}
		if got {
			if bad := locOK(text, res.Errors, mv.At(name)); bad != "" {
				out = append(out, verdict{fmt.Sprintf("rule %s alone: %s", name, bad), name + " location"})
			}
		}
	}
	var all graphql.ValidationResult
	if bad := guard(func() { all = graphql.ValidateDocument(sch, doc, nil) }); bad != "" {
		out = append(out, verdict{"all rules: " + bad, "all"})
	} else {
		if all.IsValid == mv.Any() {
			msg := ""
			if len(all.Errors) > 0 {
				msg = all.Errors[0].Message
			}
			out = append(out, verdict{fmt.Sprintf("all rules: IsValid=%v (%s), but the violated rules are %v", all.IsValid, msg, mv.Names()), "all"})
		} else if !all.IsValid {
			if bad := locOK(text, all.Errors, nil); bad != "" {
				out = append(out, verdict{"all rules: " + bad, "all location"})
			}
		}
	}
	if withDo && mv.Any() {
		v.f.W.ResetAll()
		var r *graphql.Result
		if bad := guard(func() {
			r = graphql.Do(graphql.Params{Schema: *sch, RequestString: text, RootObject: v.f.Root, Context: v.f.Ctx})
		}); bad != "" {
			out = append(out, verdict{"Do: " + bad, "do"})
		} else if r.Data != nil || len(r.Errors) == 0 || len(v.f.W.Calls) > 0 {
			out = append(out, verdict{fmt.Sprintf("Do on an invalid document (violates %v): data=%v errors=%d resolver calls=%d", mv.Names(), r.Data, len(r.Errors), len(v.f.W.Calls)), "do"})
		}
	}
	return out, mv
}

// ---- mutations: one injected error (or harmless edit) per site ----

type mut struct {
	name  string
	apply func()
}

func findField(s *gen.Schema, parent, name string) *gen.FieldDef {
	if td := s.Type(parent); td != nil {
		return td.Field(name)
	}
	return nil
}

func mutations(s *gen.Schema, d *gen.Doc) []mut {
	var ms []mut
	add := func(n string, f func()) { ms = append(ms, mut{n, f}) }
	var walk func(parent string, sels *[]*gen.Sel, depth int)
	walk = func(parent string, sels *[]*gen.Sel, depth int) {
		list := *sels
		for i, sel := range list {
			sel := sel
			i := i
			switch sel.Kind {
			case gen.SField:
				fd := findField(s, parent, sel.Name)
				add("unknown field", func() { sel.Name = "zzz" })
				add("unknown argument", func() { sel.Args = append(sel.Args, gen.Arg{Name: "nope", Val: gen.IntV(1)}) })
				if len(sel.Args) > 0 {
					add("duplicate argument", func() { sel.Args = append(sel.Args, sel.Args[0]) })
					add("argument of wrong type", func() { sel.Args[0].Val = gen.ListV(gen.StrV("q"), gen.BoolV(true)) })
					add("undefined variable", func() { sel.Args[0].Val = gen.VarV("undef") })
				}
				if fd != nil && s.IsLeaf(fd.Type.Base()) {
					add("selection on leaf", func() { sel.Sel = []*gen.Sel{{Kind: gen.SField, Name: "x"}} })
				} else if len(sel.Sel) > 0 {
					add("composite without selection", func() { sel.Sel = nil })
				}
				add("unknown directive", func() { sel.Dirs = append(sel.Dirs, gen.Dir{Name: "nope"}) })
				add("misplaced directive", func() { sel.Dirs = append(sel.Dirs, gen.Dir{Name: "deprecated"}) })
				add("directive without its argument", func() { sel.Dirs = append(sel.Dirs, gen.Dir{Name: "skip"}) })
				add("directive with wrong argument", func() {
					sel.Dirs = append(sel.Dirs, gen.Dir{Name: "include", Args: []gen.Arg{{Name: "if", Val: gen.IntV(1)}}})
				})
				if i > 0 && list[i-1].Kind == gen.SField && list[i-1].Name != sel.Name {
					add("alias collision with previous sibling", func() { sel.Alias = list[i-1].Key() })
				}
				add("sibling with same key, other field", func() {
					*sels = append(*sels, &gen.Sel{Kind: gen.SField, Alias: sel.Key(), Name: "b"})
				})
				add("sibling with same key in inline fragment, other args", func() {
					cp := *sel
					cp.Args = append(append([]gen.Arg{}, sel.Args...), gen.Arg{Name: "x", Val: gen.IntV(99)})
					*sels = append(*sels, &gen.Sel{Kind: gen.SInline, Sel: []*gen.Sel{&cp}})
				})
				if parent == s.Query && depth == 0 {
					add("required argument given", func() {
						*sels = append(*sels, &gen.Sel{Kind: gen.SField, Name: "r", Args: []gen.Arg{{Name: "q", Val: gen.IntV(1)}}})
					})
					add("required argument missing", func() { *sels = append(*sels, &gen.Sel{Kind: gen.SField, Name: "r"}) })
				}
				if fd != nil {
					walk(fd.Type.Base(), &sel.Sel, depth+1)
				}
			case gen.SInline:
				add("unknown type condition", func() { sel.HasCond, sel.Cond = true, "Nope" })
				add("scalar type condition", func() { sel.HasCond, sel.Cond = true, "Int" })
				add("input type condition", func() { sel.HasCond, sel.Cond = true, "In" })
				for _, t := range []string{"O", "P", "I", "J", "U", "Query"} {
					t := t
					if !(sel.HasCond && sel.Cond == t) {
						add("type condition "+t, func() { sel.HasCond, sel.Cond = true, t })
					}
				}
				add("misplaced directive on inline", func() { sel.Dirs = append(sel.Dirs, gen.Dir{Name: "deprecated"}) })
				p := parent
				if sel.HasCond {
					p = sel.Cond
				}
				walk(p, &sel.Sel, depth)
			case gen.SSpread:
				add("undefined fragment", func() { sel.Name = "Undefined" })
				add("unknown directive on spread", func() { sel.Dirs = append(sel.Dirs, gen.Dir{Name: "nope"}) })
			}
		}
	}
	for _, op := range d.Ops {
		op := op
		add("unused variable", func() { op.Short = false; op.Vars = append(op.Vars, &gen.VarDef{Name: "u", Type: gen.Named("Int")}) })
		add("variable of output type", func() {
			op.Short = false
			op.Vars = append(op.Vars, &gen.VarDef{Name: "u", Type: gen.Named("O")})
			op.Sel = append(op.Sel, &gen.Sel{Kind: gen.SField, Name: "g", Args: []gen.Arg{{Name: "i", Val: gen.VarV("u")}}})
		})
		add("variable of unknown type", func() {
			op.Short = false
			op.Vars = append(op.Vars, &gen.VarDef{Name: "u", Type: gen.ListOf(gen.Named("Nope"))})
			op.Sel = append(op.Sel, &gen.Sel{Kind: gen.SField, Name: "g", Args: []gen.Arg{{Name: "i", Val: gen.VarV("u")}}})
		})
		add("nullable variable in required position", func() {
			op.Short = false
			op.Vars = append(op.Vars, &gen.VarDef{Name: "u", Type: gen.Named("Int")})
			op.Sel = append(op.Sel, &gen.Sel{Kind: gen.SField, Name: "r", Args: []gen.Arg{{Name: "q", Val: gen.VarV("u")}}})
		})
		add("nullable variable with default in required position", func() {
			op.Short = false
			dv := gen.IntV(4)
			op.Vars = append(op.Vars, &gen.VarDef{Name: "u", Type: gen.Named("Int"), Default: &dv})
			op.Sel = append(op.Sel, &gen.Sel{Kind: gen.SField, Name: "r", Args: []gen.Arg{{Name: "q", Val: gen.VarV("u")}}})
		})
		add("required variable with default", func() {
			op.Short = false
			dv := gen.IntV(4)
			op.Vars = append(op.Vars, &gen.VarDef{Name: "u", Type: gen.NonNull(gen.Named("Int")), Default: &dv})
			op.Sel = append(op.Sel, &gen.Sel{Kind: gen.SField, Name: "r", Args: []gen.Arg{{Name: "q", Val: gen.VarV("u")}}})
		})
		add("default of wrong type", func() {
			op.Short = false
			dv := gen.StrV("four")
			op.Vars = append(op.Vars, &gen.VarDef{Name: "u", Type: gen.Named("Int"), Default: &dv})
			op.Sel = append(op.Sel, &gen.Sel{Kind: gen.SField, Name: "g", Args: []gen.Arg{{Name: "i", Val: gen.VarV("u")}}})
		})
		if len(op.Vars) > 0 {
			add("duplicate variable", func() { op.Vars = append(op.Vars, op.Vars[0]) })
			add("variable used only in another operation", func() {
				d.Ops = append(d.Ops, &gen.Op{Kind: "query", Name: "Z", Sel: []*gen.Sel{{Kind: gen.SField, Name: "g", Args: []gen.Arg{{Name: "i", Val: gen.VarV(op.Vars[0].Name)}}}}})
				if op.Name == "" {
					op.Name, op.Short = "Y", false
				}
			})
		}
		add("directive on operation", func() {
			op.Short = false
			op.Dirs = append(op.Dirs, gen.Dir{Name: "skip", Args: []gen.Arg{{Name: "if", Val: gen.BoolV(true)}}})
		})
		add("second anonymous operation", func() {
			d.Ops = append(d.Ops, &gen.Op{Kind: "query", Short: true, Sel: []*gen.Sel{{Kind: gen.SField, Name: "a"}}})
		})
		if op.Name != "" {
			add("duplicate operation name", func() {
				d.Ops = append(d.Ops, &gen.Op{Kind: "query", Name: op.Name, Sel: []*gen.Sel{{Kind: gen.SField, Name: "a"}}})
			})
		}
		add("duplicate input field", func() {
			op.Sel = append(op.Sel, &gen.Sel{Kind: gen.SField, Name: "g", Args: []gen.Arg{{Name: "in", Val: gen.ParseValue("{a:1,a:2}")}}})
		})
		add("nested duplicate input field", func() {
			op.Sel = append(op.Sel, &gen.Sel{Kind: gen.SField, Name: "g", Args: []gen.Arg{{Name: "lin", Val: gen.ParseValue("[{a:1,d:{k:\"a\",k:\"b\"}}]")}}})
		})
		root := s.Query
		switch op.Kind {
		case "mutation":
			root = s.Mutation
		case "subscription":
			root = s.Subscription
		}
		walk(root, &op.Sel, 0)
	}
	for _, f := range d.Frags {
		f := f
		add("duplicate fragment", func() { d.Frags = append(d.Frags, f) })
		add("self spread", func() { f.Sel = append(f.Sel, &gen.Sel{Kind: gen.SSpread, Name: f.Name}) })
		add("directive on fragment definition", func() {
			f.Dirs = append(f.Dirs, gen.Dir{Name: "skip", Args: []gen.Arg{{Name: "if", Val: gen.BoolV(true)}}})
		})
		add("unknown directive on fragment definition", func() { f.Dirs = append(f.Dirs, gen.Dir{Name: "nope"}) })
		add("fragment on unknown type", func() { f.Cond = "Nope" })
		add("fragment on scalar", func() { f.Cond = "String" })
		for _, t := range []string{"O", "P", "I", "J", "U"} {
			t := t
			if f.Cond != t {
				add("fragment on "+t, func() { f.Cond = t })
			}
		}
		add("undefined variable in fragment", func() {
			f.Sel = append(f.Sel, &gen.Sel{Kind: gen.SField, Name: "__typename", Dirs: []gen.Dir{{Name: "skip", Args: []gen.Arg{{Name: "if", Val: gen.VarV("undef")}}}}})
		})
		walk(f.Cond, &f.Sel, 1)
	}
	add("unused fragment", func() {
		d.Frags = append(d.Frags, &gen.Frag{Name: "Unused", Cond: "O", Sel: []*gen.Sel{{Kind: gen.SField, Name: "x"}}})
	})
	add("unused fragment cycle", func() {
		d.Frags = append(d.Frags,
			&gen.Frag{Name: "Cy1", Cond: "O", Sel: []*gen.Sel{{Kind: gen.SField, Name: "o", Sel: []*gen.Sel{{Kind: gen.SSpread, Name: "Cy2"}}}}},
			&gen.Frag{Name: "Cy2", Cond: "O", Sel: []*gen.Sel{{Kind: gen.SInline, Sel: []*gen.Sel{{Kind: gen.SSpread, Name: "Cy1"}}}}})
	})
	return ms
}

// ---- the three document spaces ----

func (v *env) account(x *explore.X, space, text string, d *gen.Doc, withDo bool, payload map[string]interface{}) uint64 {
	vs, mv := v.judge(d, text, withDo)
	c := v.c
	key := strings.Join(mv.Names(), ",")
	dig := report.H(text)
	c.R.Evaluations += 25
	c.R.States++
	c.R.Count("documents:"+space, 1)
	c.R.Outcome(report.H(key))
	if mv.Any() {
		c.R.Nontriv(report.H(text))
		c.R.Count("invalid_documents", 1)
		for _, n := range mv.Names() {
			c.R.Count("violated:"+n, 1)
		}
	} else {
		c.R.Count("valid_documents", 1)
	}
	if c.R.WantSample() {
		c.R.Sample(map[string]interface{}{"space": space, "document": text, "violated_rules": mv.Names()})
	}
	for _, vd := range vs {
		payload["text"] = text
		c.Mismatch(classify(v, d, text, vd), space+": "+vd.rule, fmt.Sprintf("document %q: %s", text, vd.bad), payload)
	}
	return dig
}

// classify: no known findings at present.
func classify(v *env, d *gen.Doc, text string, vd verdict) string { return "" }

func (v *env) genDoc(x *explore.X, depth int, muts int, root string) (*gen.Doc, []string) {
	g := &gen.DocGen{S: v.s, X: x, MaxDepth: depth, MaxSibs: 3}
	switch root {
	case "mutation":
		g.RootType, g.RootKind = v.s.Mutation, root
	case "subscription":
		g.RootType, g.RootKind = v.s.Subscription, root
	}
	d := g.Query()
	return d, v.edit(x, d, muts)
}

// edit applies up to muts injected edits chosen by the explorer.
func (v *env) edit(x *explore.X, d *gen.Doc, muts int) []string {
	var names []string
	for i := 0; i < muts; i++ {
		ms := mutations(v.s, d)
		// the second edit costs two deviations: pairs of edits are explored on simpler documents
		k := x.DevW(len(ms)+1, i+1, "mutation")
		if k == 0 {
			break
		}
		ms[k-1].apply()
		names = append(names, ms[k-1].name)
	}
	return names
}

// rootless space: a schema with a query type only; operations of the other kinds have no
// root type, so every rule runs without type information below them.
var rootlessBase = []string{
	`mutation {m1}`,
	`subscription S {s {x}}`,
	`mutation M($v: Boolean!) {m1 @skip(if: $v) m3 {x ...F}} fragment F on O {y}`,
	`{a} mutation N {zzz ...G} fragment G on Mutation {m1}`,
	`query Q {o {x}} subscription T {t ... on Subscription {t}}`,
}

func rootlessSchema() *gen.Schema {
	s := gen.KitchenArgs()
	var order []string
	for _, n := range s.Order {
		if n != s.Mutation && n != s.Subscription {
			order = append(order, n)
		}
	}
	s.Order = order
	delete(s.Types, s.Mutation)
	delete(s.Types, s.Subscription)
	s.Mutation, s.Subscription = "", ""
	return s
}

// literal space: every argument type of g x a menu of literals, and variables of a menu of
// types in every argument position, and defaults.
var literalMenu = []string{
	`1`, `-1`, `2147483647`, `2147483648`, `-2147483649`, `1.5`, `1e3`, `"s"`, `"c:v"`, `""`, `true`, `A`, `C`,
	`[]`, `[1]`, `[1,2]`, `[1,"a"]`, `[[1]]`, `[[1],[2,"x"]]`, `[[]]`, `[A]`,
	`{}`, `{a:1}`, `{a:"x"}`, `{a:1,b:[1]}`, `{a:1,b:1}`, `{a:1,c:B}`, `{a:1,c:Z}`, `{a:1,d:{}}`, `{a:1,d:{k:1}}`, `{a:1,zz:1}`, `{b:[1]}`,
	`[{a:1}]`, `[{a:1},{}]`, `{a:$vi}`, `{a:1,b:[$vi]}`, `{a:1,b:$vi}`, `[$vi]`, `$vi`,
}

var varTypeMenu = []string{"Int", "Int!", "[Int]", "[Int!]", "[Int]!", "[Int!]!", "[[Int]]", "Float", "String", "ID", "Boolean", "E", "Custom", "In", "In!", "[In!]", "[In]", "In2"}

var argVariants = []string{"", `id: 4`, `id: "4"`, `id: 5`, `c: 1`, `c: "1"`, `c: 1.0`, `c: true`, `c: "true"`, `c: A`, `c: "A"`, `s: "A"`, `e: A`, `e: B`, `i: 1`, `fl: 1`, `c: [1]`, `c: ["1"]`, `c: {k: 1}`, `c: {k: "1"}`}

// argPairDoc: { k: g(A) k: g(B) } (shape 0) or the second field inside a fragment (shape 1).
func argPairDoc(ai, bi, shape int) *gen.Doc {
	mk := func(args string) *gen.Sel {
		f := &gen.Sel{Kind: gen.SField, Alias: "k", Name: "g"}
		if args != "" {
			i := strings.Index(args, ": ")
			f.Args = []gen.Arg{{Name: args[:i], Val: gen.ParseValue(args[i+2:])}}
		}
		return f
	}
	a, b := argVariants[ai], argVariants[bi]
	op := &gen.Op{Kind: "query", Short: true, Sel: []*gen.Sel{mk(a), mk(b)}}
	d := &gen.Doc{Ops: []*gen.Op{op}}
	if shape == 1 {
		op.Sel = []*gen.Sel{mk(a), spread("AF")}
		d.Frags = []*gen.Frag{{Name: "AF", Cond: "Query", Sel: []*gen.Sel{inline("", mk(b))}}}
	}
	return d
}

func gArgs(s *gen.Schema) []*gen.ArgDef { return s.Type("Query").Field("g").Args }

func litDoc(arg string, val gen.Value) *gen.Doc {
	op := &gen.Op{Kind: "query", Short: true, Sel: []*gen.Sel{{Kind: gen.SField, Name: "g", Args: []gen.Arg{{Name: arg, Val: val}}}}}
	if val.HasVar() {
		op.Short = false
		op.Vars = []*gen.VarDef{{Name: "vi", Type: gen.Named("Int")}}
	}
	return &gen.Doc{Ops: []*gen.Op{op}}
}

func varDoc(arg string, vt *gen.TypeRef, def *gen.Value, nest int) *gen.Doc {
	val := gen.VarV("v")
	switch nest {
	case 1:
		val = gen.ListV(gen.VarV("v"))
	case 2:
		val = gen.ObjV(gen.Arg{Name: "a", Val: gen.VarV("v")})
	case 3:
		val = gen.ObjV(gen.Arg{Name: "a", Val: gen.IntV(1)}, gen.Arg{Name: "b", Val: gen.ListV(gen.VarV("v"))})
	case 4: // a field after a list-valued field
		val = gen.ObjV(gen.Arg{Name: "b", Val: gen.ListV(gen.IntV(1))}, gen.Arg{Name: "a", Val: gen.VarV("v")})
	case 5: // a field after a nested object and a list of lists
		val = gen.ObjV(gen.Arg{Name: "d", Val: gen.ObjV(gen.Arg{Name: "k", Val: gen.StrV("s")})}, gen.Arg{Name: "b", Val: gen.ListV(gen.ListV(gen.IntV(1)))}, gen.Arg{Name: "a", Val: gen.VarV("v")})
	}
	op := &gen.Op{Kind: "query", Vars: []*gen.VarDef{{Name: "v", Type: vt, Default: def}}, Sel: []*gen.Sel{{Kind: gen.SField, Name: "g", Args: []gen.Arg{{Name: arg, Val: val}}}}}
	return &gen.Doc{Ops: []*gen.Op{op}}
}

// topology space: one operation and up to three fragments on Query whose bodies are drawn
// from a menu with colliding response keys; IF (on the interface I) is defined when a body
// spreads it, in three variants around mutual exclusivity of object types.
func fld(alias, name string, sub ...*gen.Sel) *gen.Sel {
	return &gen.Sel{Kind: gen.SField, Alias: alias, Name: name, Sel: sub}
}
func spread(n string) *gen.Sel { return &gen.Sel{Kind: gen.SSpread, Name: n} }
func inline(cond string, sub ...*gen.Sel) *gen.Sel {
	return &gen.Sel{Kind: gen.SInline, HasCond: cond != "", Cond: cond, Sel: sub}
}

var topoMenu = []func() *gen.Sel{
	func() *gen.Sel { return fld("x", "a") },
	func() *gen.Sel { return fld("x", "n") },
	func() *gen.Sel { return fld("", "o", fld("k", "x")) },
	func() *gen.Sel { return fld("", "o", fld("k", "y")) },
	func() *gen.Sel { return spread("F") },
	func() *gen.Sel { return spread("G") },
	func() *gen.Sel { return inline("Query", fld("x", "b")) },
	func() *gen.Sel { return fld("", "i", spread("IF")) },
	// thorough only
	func() *gen.Sel { return spread("H") },
	func() *gen.Sel { return fld("", "a") },
	func() *gen.Sel { return fld("", "o", spread("OF")) },
}

const topoQuickMenu = 8

var ifVariants = [][]*gen.Sel{
	{inline("O", fld("k", "o", fld("", "x"))), inline("P", fld("k", "z"))},                 // exclusive parents, object against leaf
	{inline("O", fld("k", "l", fld("", "x"))), inline("P", fld("k", "o", fld("", "x")))},   // exclusive parents, list against object
	{inline("O", fld("k", "y")), inline("P", fld("k", "z"))},                               // exclusive parents, same shape: fine
	{inline("O", fld("k", "n")), inline("P", fld("k", "z"))},                               // exclusive parents, String! against String
	{fld("k", "x"), inline("P", fld("k", "z"))},                                            // I.x against P.z: not exclusive
	{inline("O", fld("k", "o", fld("x", "y"))), inline("P", fld("k", "o", fld("x", "x")))}, // exclusive parents, then the same object
}

func usesSpread(sels []*gen.Sel, name string) bool {
	for _, s := range sels {
		if s.Kind == gen.SSpread && s.Name == name {
			return true
		}
		if usesSpread(s.Sel, name) {
			return true
		}
	}
	return false
}

func topoBody(x *explore.X, menu, max int, label string) []*gen.Sel {
	var out []*gen.Sel
	for i := 0; i < max; i++ {
		k := x.Choose(menu+1, label)
		if k == 0 {
			break
		}
		out = append(out, topoMenu[k-1]())
	}
	if len(out) == 0 {
		out = []*gen.Sel{fld("", "bo")}
	}
	return out
}

// topoDoc: sizes[i] = maximal body length of fragment i (F, G, H).
func topoDoc(x *explore.X, menu int, sizes []int) *gen.Doc {
	d := &gen.Doc{}
	d.Ops = []*gen.Op{{Kind: "query", Short: true, Sel: topoBody(x, menu, 2, "op body")}}
	names := []string{"F", "G", "H"}
	for i, n := range sizes {
		d.Frags = append(d.Frags, &gen.Frag{Name: names[i], Cond: "Query", Sel: topoBody(x, menu, n, "fragment body "+names[i])})
	}
	all := append([]*gen.Sel{}, d.Ops[0].Sel...)
	for _, f := range d.Frags {
		all = append(all, f.Sel...)
	}
	if usesSpread(all, "IF") {
		body := ifVariants[x.Choose(len(ifVariants), "IF body")]
		cp := make([]*gen.Sel, len(body))
		copy(cp, body)
		d.Frags = append(d.Frags, &gen.Frag{Name: "IF", Cond: "I", Sel: cp})
	}
	if usesSpread(all, "OF") {
		d.Frags = append(d.Frags, &gen.Frag{Name: "OF", Cond: "O", Sel: []*gen.Sel{fld("k", "n"), spread("OF")}})
	}
	return d
}

// exclusivity space: `{ i { S1 .. Sn } }`, every Si an inline fragment on one of I's two
// object types selecting o with one of several sub-selections that share the key k; the
// same (fields, fragment) pairs are compared under exclusive and non-exclusive parents in
// every order.
func exclDoc(x *explore.X, slots int) *gen.Doc {
	subs := []func() []*gen.Sel{
		func() []*gen.Sel { return []*gen.Sel{fld("k", "x")} },
		func() []*gen.Sel { return []*gen.Sel{fld("k", "y")} },
		func() []*gen.Sel { return []*gen.Sel{spread("KF")} },
		func() []*gen.Sel { return []*gen.Sel{spread("KG")} },
	}
	var body []*gen.Sel
	for i := 0; i < slots; i++ {
		k := x.Choose(2*len(subs)+1, "slot")
		if k == 0 {
			break
		}
		k--
		body = append(body, inline([]string{"O", "P"}[k%2], fld("", "o", subs[k/2]()...)))
	}
	if len(body) == 0 {
		body = []*gen.Sel{fld("", "x")}
	}
	d := &gen.Doc{Ops: []*gen.Op{{Kind: "query", Short: true, Sel: []*gen.Sel{fld("", "i", body...)}}}}
	if usesSpread(body, "KF") || usesSpread(body, "KG") {
		d.Frags = append(d.Frags, &gen.Frag{Name: "KF", Cond: "O", Sel: []*gen.Sel{fld("k", "y")}})
	}
	if usesSpread(body, "KG") {
		d.Frags = append(d.Frags, &gen.Frag{Name: "KG", Cond: "O", Sel: []*gen.Sel{fld("j", "x"), spread("KF")}})
	}
	return d
}

type topoConfig struct {
	menu  int
	sizes []int
}

// topoConfigs: quick = 2 fragments over the quick menu; thorough = 2 fragments over the
// whole menu and 3 fragments over the quick menu plus the spread of the third.
func topoConfigs(quick bool) []topoConfig {
	if quick {
		return []topoConfig{{topoQuickMenu, []int{2, 1}}}
	}
	return []topoConfig{{len(topoMenu), []int{2, 1}}, {topoQuickMenu + 1, []int{2, 1, 1}}}
}

func run(c *core.Ctx) {
	s := Schema()
	f, err := execx.NewFixture(s, bridge.Options{})
	if err != nil {
		c.R.HarnessError("fixture: %v", err)
		return
	}
	v := &env{c: c, f: f, s: s}
	c.R.Rule = "case = one syntactically valid executable document over the kitchen schema (plus fields with a required argument and one argument per input type shape), from five enumerated spaces: (a) generator documents (query, mutation and subscription operations) within a deviation budget, each with <= k injected edits from the mutation alphabet (one per error class of the property and per site); (b) every literal of the literal menu in every argument position, every variable type of the type menu in every position (bare, in a list, in an input field) with and without default; (c) fragment topologies: operation body and <= 3 fragment bodies over a menu with colliding response keys and spreads; (d) mutual-exclusivity orders: n inline fragments on the two object types of an interface whose sub-selections share a key directly and through fragments; (e) mutation and subscription documents on a query-only schema (the operation has no root type) with <= k injected edits. Each document is validated by each of the 24 exported rules alone, by SpecifiedRules, and (when invalid) through Do; oracle = M-rules (verif/h/mrules), brute-force evaluators without memoisation; error locations must lie in the document and start an offending node; non-trivial = document violates at least one rule; outcomes = distinct sets of violated rules"
	c.R.Assumptions = []string{"M-rules (verif/h/mrules) states the validation rules of the edition the library implements (October-2016 specification / graphql-js 0.8; required arguments with defaults are still required, null is not a literal)", "documents render to ASCII so that columns are byte offsets", "Go toolchain"}
	docDev := c.Pick(2, 2)
	nmut := c.Pick(1, 2)
	c.R.Bounds["generator_deviations"] = docDev
	c.R.Bounds["injected_edits"] = nmut
	c.R.Bounds["literal_menu"] = len(literalMenu)
	c.R.Bounds["variable_type_menu"] = len(varTypeMenu)
	c.R.Bounds["topology_configurations(menu,fragment_body_sizes)"] = fmt.Sprint(topoConfigs(c.Quick()))
	f.W.Alphabet = nil

	// (a) generator documents with injected edits, for every kind of operation
	for _, root := range []string{"query", "mutation", "subscription"} {
		root := root
		dev := docDev
		if root != "query" {
			dev--
		}
		e := c.Explorer(dev + c.Pick(1, 2))
		e.ShardLevel = 1
		e.Run(func(x *explore.X, owned bool) uint64 {
			f.W.X = x
			d, names := v.genDoc(x, 2, nmut, root)
			text := d.Render()
			if !owned {
				return report.H(text)
			}
			return v.account(x, "edits", text, d, true, map[string]interface{}{"space": "edits", "choices": x.Trace(), "nmut": nmut, "edits": names, "root": root})
		})
		c.Absorb(e)
	}
	// (e) operations without a root type
	{
		s2 := rootlessSchema()
		f2, err := execx.NewFixture(s2, bridge.Options{})
		if err != nil {
			c.R.HarnessError("rootless fixture: %v", err)
			return
		}
		v2 := &env{c: c, f: f2, s: s2}
		for bi, base := range rootlessBase {
			bi, base := bi, base
			e := c.Explorer(c.Pick(1, 3))
			e.Run(func(x *explore.X, owned bool) uint64 {
				f2.W.X = x
				d, perr := execx.DocFromText(base)
				if perr != nil {
					c.R.HarnessError("rootless base %d: %v", bi, perr)
					return 0
				}
				names := v2.edit(x, d, nmut)
				text := d.Render()
				if !owned {
					return report.H(text)
				}
				return v2.account(x, "rootless", text, d, true, map[string]interface{}{"space": "rootless", "base": bi, "choices": x.Trace(), "nmut": nmut, "edits": names})
			})
			c.Absorb(e)
		}
	}
	// (b) literals and variables
	{
		args := gArgs(s)
		n := 0
		for ai, ad := range args {
			for li, lit := range literalMenu {
				n++
				if !c.Mine(n) {
					continue
				}
				d := litDoc(ad.Name, gen.ParseValue(lit))
				v.account(nil, "literals", d.Render(), d, true, map[string]interface{}{"space": "literals", "arg": ai, "lit": li})
				c.R.Transitions++
			}
			for ti, vt := range varTypeMenu {
				for nest := 0; nest < 6; nest++ {
					for def := 0; def < 3; def++ {
						n++
						if !c.Mine(n) {
							continue
						}
						var dv *gen.Value
						switch def {
						case 1:
							x := gen.IntV(1)
							dv = &x
						case 2:
							x := gen.ParseValue(`{a:1}`)
							dv = &x
						}
						d := varDoc(ad.Name, gen.ParseType(vt), dv, nest)
						v.account(nil, "variables", d.Render(), d, true, map[string]interface{}{"space": "variables", "arg": ai, "type": ti, "nest": nest, "def": def})
						c.R.Transitions++
					}
				}
			}
		}
	}
	// (f) two fields on one response key whose argument lists differ in one respect only:
	// the kind of a literal with one spelling (4 / "4" / 4.0), its text, the argument name, the
	// presence of the argument; side by side, and with the second field inside a fragment
	{
		variants := argVariants
		n := 0
		for ai := range variants {
			for bi := range variants {
				for shape := 0; shape < 2; shape++ {
					n++
					if !c.Mine(n) {
						continue
					}
					d := argPairDoc(ai, bi, shape)
					v.account(nil, "argument-pairs", d.Render(), d, true, map[string]interface{}{"space": "argument-pairs", "a": ai, "b": bi, "shape": shape})
					c.R.Transitions++
				}
			}
		}
	}
	// (d) mutual exclusivity orders
	{
		slots := c.Pick(4, 5)
		c.R.Bounds["exclusivity_slots"] = slots
		e := c.Explorer(0)
		e.ShardLevel = 2
		e.Run(func(x *explore.X, owned bool) uint64 {
			d := exclDoc(x, slots)
			text := d.Render()
			if !owned {
				return report.H(text)
			}
			return v.account(x, "exclusivity", text, d, false, map[string]interface{}{"space": "exclusivity", "choices": x.Trace(), "slots": slots})
		})
		c.Absorb(e)
	}
	// (c) fragment topologies
	for ti, tc := range topoConfigs(c.Quick()) {
		ti, tc := ti, tc
		e := c.Explorer(0)
		e.ShardLevel = 2
		e.Run(func(x *explore.X, owned bool) uint64 {
			d := topoDoc(x, tc.menu, tc.sizes)
			text := d.Render()
			if !owned {
				return report.H(text)
			}
			return v.account(x, "topologies", text, d, false, map[string]interface{}{"space": "topologies", "choices": x.Trace(), "quick": c.Quick(), "config": ti})
		})
		c.Absorb(e)
	}
}

func replay(c *core.Ctx, p map[string]interface{}) (bool, string) {
	s := Schema()
	f, err := execx.NewFixture(s, bridge.Options{})
	if err != nil {
		return false, err.Error()
	}
	v := &env{c: c, f: f, s: s}
	var choices []int
	if cs, ok := p["choices"].([]interface{}); ok {
		for _, x := range cs {
			choices = append(choices, int(x.(float64)))
		}
	}
	num := func(k string) int {
		if x, ok := p[k].(float64); ok {
			return int(x)
		}
		return 0
	}
	var d *gen.Doc
	withDo := true
	switch p["space"] {
	case "edits":
		explore.Replay(choices, 0, func(x *explore.X, owned bool) uint64 {
			f.W.X = x
			root, _ := p["root"].(string)
			d, _ = v.genDoc(x, 2, num("nmut"), root)
			return 0
		})
	case "rootless":
		s = rootlessSchema()
		f, err = execx.NewFixture(s, bridge.Options{})
		if err != nil {
			return false, err.Error()
		}
		v = &env{c: c, f: f, s: s}
		explore.Replay(choices, 0, func(x *explore.X, owned bool) uint64 {
			f.W.X = x
			d, _ = execx.DocFromText(rootlessBase[num("base")])
			v.edit(x, d, num("nmut"))
			return 0
		})
	case "argument-pairs":
		d = argPairDoc(num("a"), num("b"), num("shape"))
	case "literals":
		d = litDoc(gArgs(s)[num("arg")].Name, gen.ParseValue(literalMenu[num("lit")]))
	case "variables":
		var dv *gen.Value
		switch num("def") {
		case 1:
			x := gen.IntV(1)
			dv = &x
		case 2:
			x := gen.ParseValue(`{a:1}`)
			dv = &x
		}
		d = varDoc(gArgs(s)[num("arg")].Name, gen.ParseType(varTypeMenu[num("type")]), dv, num("nest"))
	case "topologies":
		withDo = false
		explore.Replay(choices, 0, func(x *explore.X, owned bool) uint64 {
			q, _ := p["quick"].(bool)
			tc := topoConfigs(q)[num("config")]
			d = topoDoc(x, tc.menu, tc.sizes)
			return 0
		})
	case "exclusivity":
		withDo = false
		explore.Replay(choices, 0, func(x *explore.X, owned bool) uint64 {
			d = exclDoc(x, num("slots"))
			return 0
		})
	default:
		return false, "unknown space"
	}
	text := d.Render()
	vs, mv := v.judge(d, text, withDo)
	if len(vs) > 0 {
		var msgs []string
		for _, x := range vs {
			msgs = append(msgs, x.bad)
		}
		sort.Strings(msgs)
		return false, fmt.Sprintf("document %q: %s", text, strings.Join(msgs, "; "))
	}
	return true, fmt.Sprintf("document %q: every rule alone, all rules and Do agree with M-rules (violated: %v)", text, mv.Names())
}
