// Package model holds the reference models (DESIGN.md E5). They interpret the generator's
// own structures (gen.Schema, gen.Doc, gen.Value) and share no code with the library.
package model

import (
	"fmt"
	"math"
	"sort"
	"strconv"
	"strings"

	"verif/h/gen"
)

// Verdict of input coercion (three-valued, see DESIGN.md §5 C05).
type Verdict int

const (
	Accept      Verdict = iota // the property text demands acceptance (type-conformant value)
	Reject                     // the property text demands rejection
	Unspecified                // the property text is silent; nothing is judged
)

func (v Verdict) String() string { return [...]string{"accept", "reject", "unspecified"}[v] }

func worse(a, b Verdict) Verdict {
	// Reject dominates, then Unspecified
	if a == Reject || b == Reject {
		return Reject
	}
	if a == Unspecified || b == Unspecified {
		return Unspecified
	}
	return Accept
}

// CoerceInput coerces a JSON-like Go value (nil, bool, int, float64, string,
// []interface{}, map[string]interface{}) offered for a variable of type t.
// On Accept the coerced value is returned.
func CoerceInput(s *gen.Schema, t *gen.TypeRef, v interface{}) (interface{}, Verdict) {
	if t.Kind == gen.TNonNull {
		if v == nil {
			return nil, Reject
		}
		return CoerceInput(s, t.Of, v)
	}
	if v == nil {
		return nil, Accept
	}
	if t.Kind == gen.TList {
		if l, ok := v.([]interface{}); ok {
			out := make([]interface{}, 0, len(l))
			verdict := Accept
			for _, it := range l {
				c, vd := CoerceInput(s, t.Of, it)
				verdict = worse(verdict, vd)
				out = append(out, c)
			}
			return out, verdict
		}
		c, vd := CoerceInput(s, t.Of, v)
		return []interface{}{c}, vd
	}
	td := s.Type(t.Name)
	if td == nil {
		return nil, Unspecified
	}
	switch td.Kind {
	case gen.KInput:
		m, ok := v.(map[string]interface{})
		if !ok {
			return nil, Reject
		}
		verdict := Accept
		for k := range m {
			if td.Input(k) == nil {
				verdict = Reject
			}
		}
		out := map[string]interface{}{}
		for _, in := range td.Inputs {
			fv, present := m[in.Name]
			if !present || fv == nil {
				if in.Type.IsNonNull() && in.Default == nil {
					verdict = Reject
					continue
				}
				if in.Type.IsNonNull() && fv == nil && present {
					verdict = Reject
					continue
				}
				if in.Default != nil {
					out[in.Name] = LiteralValue(s, in.Type, *in.Default, nil)
				}
				continue
			}
			c, vd := CoerceInput(s, in.Type, fv)
			verdict = worse(verdict, vd)
			if c != nil {
				out[in.Name] = c
			}
		}
		return out, verdict
	case gen.KEnum:
		str, ok := v.(string)
		if !ok {
			return nil, Reject // not a name at all
		}
		if ev := td.EnumByName(str); ev != nil {
			return ev.Internal, Accept
		}
		return nil, Reject
	}
	switch t.Name {
	case "Int":
		switch n := v.(type) {
		case int:
			if n < math.MinInt32 || n > math.MaxInt32 {
				return nil, Reject
			}
			return n, Accept
		case float64:
			if n != math.Trunc(n) {
				return nil, Unspecified // non-integral number offered for Int: text is silent
			}
			if n < math.MinInt32 || n > math.MaxInt32 {
				return nil, Reject
			}
			return int(n), Accept
		case string:
			if f, err := strconv.ParseFloat(n, 64); err != nil || math.IsNaN(f) || math.IsInf(f, 0) {
				return nil, Reject // non-numeric ("NaN" is not a number, "Inf" no 32-bit integer)
			}
			return nil, Unspecified
		case bool:
			return nil, Unspecified
		default:
			return nil, Reject
		}
	case "Float":
		switch n := v.(type) {
		case int:
			return float64(n), Accept
		case float64:
			return n, Accept
		case string:
			if _, err := strconv.ParseFloat(n, 64); err != nil {
				return nil, Reject
			}
			return nil, Unspecified
		case bool:
			return nil, Unspecified
		default:
			return nil, Reject
		}
	case "String":
		if str, ok := v.(string); ok {
			return str, Accept
		}
		return nil, Unspecified
	case "ID":
		switch n := v.(type) {
		case string:
			return n, Accept
		case int:
			return strconv.Itoa(n), Accept
		}
		return nil, Unspecified
	case "Boolean":
		if b, ok := v.(bool); ok {
			return b, Accept
		}
		return nil, Unspecified
	case "Custom":
		if str, ok := v.(string); ok {
			if strings.HasPrefix(str, "c:") {
				return str[2:], Accept
			}
			return nil, Reject
		}
		return nil, Reject
	}
	return nil, Unspecified
}

// LiteralVerdict judges a literal (without variables inside being judged) against a type.
func LiteralVerdict(s *gen.Schema, t *gen.TypeRef, v gen.Value) Verdict {
	if v.Kind == gen.VVar {
		return Accept
	}
	if t.Kind == gen.TNonNull {
		return LiteralVerdict(s, t.Of, v)
	}
	if t.Kind == gen.TList {
		if v.Kind == gen.VList {
			vd := Accept
			for _, it := range v.Items {
				vd = worse(vd, LiteralVerdict(s, t.Of, it))
			}
			return vd
		}
		return LiteralVerdict(s, t.Of, v)
	}
	td := s.Type(t.Name)
	if td == nil {
		return Unspecified
	}
	switch td.Kind {
	case gen.KInput:
		if v.Kind != gen.VObject {
			return Reject
		}
		vd := Accept
		seen := map[string]bool{}
		for _, f := range v.Fields {
			in := td.Input(f.Name)
			if in == nil {
				vd = Reject
				continue
			}
			seen[f.Name] = true
			vd = worse(vd, LiteralVerdict(s, in.Type, f.Val))
		}
		for _, in := range td.Inputs {
			if !seen[in.Name] && in.Type.IsNonNull() && in.Default == nil {
				vd = Reject
			}
		}
		return vd
	case gen.KEnum:
		if v.Kind != gen.VEnum {
			return Reject
		}
		if td.EnumByName(v.S) == nil {
			return Reject
		}
		return Accept
	}
	switch t.Name {
	case "Int":
		if v.Kind != gen.VInt {
			if v.Kind == gen.VFloat {
				return Unspecified
			}
			return Reject
		}
		n, err := strconv.ParseInt(v.S, 10, 64)
		if err != nil || n < math.MinInt32 || n > math.MaxInt32 {
			return Reject
		}
		return Accept
	case "Float":
		if v.Kind == gen.VInt || v.Kind == gen.VFloat {
			return Accept
		}
		return Reject
	case "String":
		if v.Kind == gen.VString {
			return Accept
		}
		return Unspecified
	case "ID":
		if v.Kind == gen.VString || v.Kind == gen.VInt {
			return Accept
		}
		return Unspecified
	case "Boolean":
		if v.Kind == gen.VBool {
			return Accept
		}
		return Unspecified
	case "Custom":
		if v.Kind == gen.VString && strings.HasPrefix(v.S, "c:") {
			return Accept
		}
		return Reject
	}
	return Unspecified
}

// LiteralValue evaluates a (type-conformant) literal to the Go value resolvers must see.
// Variables are looked up in vars (already coerced); a missing variable yields nil.
func LiteralValue(s *gen.Schema, t *gen.TypeRef, v gen.Value, vars map[string]interface{}) interface{} {
	if v.Kind == gen.VVar {
		if vars == nil {
			return nil
		}
		return vars[v.S]
	}
	if t.Kind == gen.TNonNull {
		return LiteralValue(s, t.Of, v, vars)
	}
	if t.Kind == gen.TList {
		if v.Kind == gen.VList {
			out := make([]interface{}, 0, len(v.Items))
			for _, it := range v.Items {
				out = append(out, LiteralValue(s, t.Of, it, vars))
			}
			return out
		}
		return []interface{}{LiteralValue(s, t.Of, v, vars)}
	}
	td := s.Type(t.Name)
	if td == nil {
		return nil
	}
	switch td.Kind {
	case gen.KInput:
		if v.Kind != gen.VObject {
			return nil
		}
		out := map[string]interface{}{}
		for _, in := range td.Inputs {
			var fv interface{}
			for _, f := range v.Fields {
				if f.Name == in.Name {
					fv = LiteralValue(s, in.Type, f.Val, vars)
				}
			}
			if fv == nil && in.Default != nil {
				fv = LiteralValue(s, in.Type, *in.Default, nil)
			}
			if fv != nil {
				out[in.Name] = fv
			}
		}
		return out
	case gen.KEnum:
		if ev := td.EnumByName(v.S); ev != nil && v.Kind == gen.VEnum {
			return ev.Internal
		}
		return nil
	}
	switch t.Name {
	case "Int":
		if v.Kind != gen.VInt {
			return nil
		}
		n, err := strconv.ParseInt(v.S, 10, 64)
		if err != nil || n < math.MinInt32 || n > math.MaxInt32 {
			return nil
		}
		return int(n)
	case "Float":
		if v.Kind != gen.VInt && v.Kind != gen.VFloat {
			return nil
		}
		f, err := strconv.ParseFloat(v.S, 64)
		if err != nil {
			return nil
		}
		return f
	case "String":
		if v.Kind == gen.VString {
			return v.S
		}
	case "ID":
		if v.Kind == gen.VString || v.Kind == gen.VInt {
			return v.S
		}
	case "Boolean":
		if v.Kind == gen.VBool {
			return v.B
		}
	case "Custom":
		if v.Kind == gen.VString && strings.HasPrefix(v.S, "c:") {
			return v.S[2:]
		}
	}
	return nil
}

// ArgumentValues computes the argument map a resolver must receive.
func ArgumentValues(s *gen.Schema, defs []*gen.ArgDef, args []gen.Arg, vars map[string]interface{}) map[string]interface{} {
	out := map[string]interface{}{}
	for _, d := range defs {
		var val interface{}
		for _, a := range args {
			if a.Name == d.Name {
				val = LiteralValue(s, d.Type, a.Val, vars)
			}
		}
		if val == nil && d.Default != nil {
			val = LiteralValue(s, d.Type, *d.Default, nil)
		}
		if val != nil {
			out[d.Name] = val
		}
	}
	return out
}

// CoerceVariables applies variable defaults and input coercion.
func CoerceVariables(s *gen.Schema, defs []*gen.VarDef, inputs map[string]interface{}) (map[string]interface{}, Verdict) {
	out := map[string]interface{}{}
	verdict := Accept
	for _, d := range defs {
		in, present := inputs[d.Name]
		if !present || in == nil {
			if d.Default != nil {
				out[d.Name] = LiteralValue(s, d.Type, *d.Default, nil)
				continue
			}
			if d.Type.IsNonNull() {
				verdict = Reject
			}
			continue
		}
		c, vd := CoerceInput(s, d.Type, in)
		verdict = worse(verdict, vd)
		if c != nil {
			out[d.Name] = c
		}
	}
	return out, verdict
}

// Canon renders a Go value canonically (sorted map keys, nil-valued entries dropped) so
// that argument maps can be compared across model and implementation.
func Canon(v interface{}) string {
	var b strings.Builder
	canon(&b, v)
	return b.String()
}

func canon(b *strings.Builder, v interface{}) {
	switch x := v.(type) {
	case nil:
		b.WriteString("null")
	case map[string]interface{}:
		keys := make([]string, 0, len(x))
		for k, e := range x {
			if e != nil {
				keys = append(keys, k)
			}
		}
		sort.Strings(keys)
		b.WriteString("{")
		for i, k := range keys {
			if i > 0 {
				b.WriteString(",")
			}
			b.WriteString(k + ":")
			canon(b, x[k])
		}
		b.WriteString("}")
	case []interface{}:
		if x == nil {
			// a nil slice is not the empty list: it marshals to null
			b.WriteString("nil-slice")
			return
		}
		b.WriteString("[")
		for i, e := range x {
			if i > 0 {
				b.WriteString(",")
			}
			canon(b, e)
		}
		b.WriteString("]")
	case string:
		b.WriteString(strconv.Quote(x))
	case int:
		b.WriteString(strconv.Itoa(x))
	case float64:
		b.WriteString(strconv.FormatFloat(x, 'g', -1, 64))
	case bool:
		b.WriteString(strconv.FormatBool(x))
	default:
		fmt.Fprintf(b, "%T(%v)", v, v)
	}
}
