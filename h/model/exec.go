package model

import (
	"fmt"
	"sort"
	"strconv"
	"strings"

	"verif/h/gen"
)

// Outcome of one resolver invocation (the environment's answer).
type Outcome int

const (
	OK Outcome = iota
	Nil
	Err
	ValErr // returns (value, error)
	Panic
	ThunkOK
	ThunkErr
	ThunkNil
	NOutcomes
)

var OutcomeNames = []string{"ok", "nil", "err", "val+err", "panic", "thunk-ok", "thunk-err", "thunk-nil"}

func (o Outcome) Fails() bool { return o == Err || o == ValErr || o == Panic || o == ThunkErr }
func (o Outcome) IsNil() bool { return o == Nil || o == ThunkNil }
func (o Outcome) Thunk() bool { return o == ThunkOK || o == ThunkErr || o == ThunkNil }

// Obj is the runtime value of an object position: its concrete type and an identity.
type Obj struct {
	Type string
	ID   string
}

// Env is the environment shared by the instrumented resolvers and the model.
type Env interface {
	// OutcomeAt is the answer the resolver at this response path gave (OK if never asked).
	OutcomeAt(path string) Outcome
	// RuntimeType is the concrete type of the object value at path for an abstract position.
	RuntimeType(path string, declared string) string
}

// RawValue is the deterministic "all fine" value of a field at a path: properly typed,
// lists have two elements, object positions hold *Obj (with the runtime type chosen by env).
func RawValue(s *gen.Schema, env Env, t *gen.TypeRef, path string) interface{} {
	switch t.Kind {
	case gen.TNonNull:
		return RawValue(s, env, t.Of, path)
	case gen.TList:
		return []interface{}{RawValue(s, env, t.Of, path+"/0"), RawValue(s, env, t.Of, path+"/1")}
	}
	td := s.Type(t.Name)
	switch td.Kind {
	case gen.KObject:
		return &Obj{Type: t.Name, ID: path}
	case gen.KInterface, gen.KUnion:
		return &Obj{Type: env.RuntimeType(path, t.Name), ID: path}
	case gen.KEnum:
		return td.Values[len(path)%len(td.Values)].Internal
	}
	switch t.Name {
	case "Int":
		return len(path)*7%100 + 1
	case "Float":
		return float64(len(path)) + 0.5
	case "Boolean":
		return len(path)%2 == 0
	case "ID":
		return "id:" + path
	case "Custom":
		return "cu:" + path
	}
	return "v:" + path
}

// Serialize is the expected serialisation of a well-typed leaf value.
func Serialize(s *gen.Schema, name string, v interface{}) interface{} {
	td := s.Type(name)
	if td.Kind == gen.KEnum {
		if ev := td.EnumByInternal(v); ev != nil {
			return ev.Name
		}
		return nil
	}
	if name == "Custom" {
		return "c:" + v.(string)
	}
	return v
}

// CallExp is one predicted resolver invocation.
type CallExp struct {
	Path       string
	Source     string // ID of the parent object ("$" = root value)
	ParentType string
	Field      string
	ReturnType string
	Args       string // Canon of the coerced argument map
	Occ        int    // number of included occurrences of the response key
	OccStarts  []int  // (unused by the model; filled by callers that know positions)
	Optional   bool   // inside a subtree nulled by a propagating failure
	Order      int
}

// ErrExp is one predicted field error.
type ErrExp struct {
	Path     string
	Optional bool // inside an already nulled subtree
	Group    int  // >0: at least one error of this group is required (candidates for the failure that nulled a position)
	Pending  bool // still propagating through non-null positions (internal)
	Why      string
}

type ExecResult struct {
	Data    interface{} // map[string]interface{} or nil
	Errors  []*ErrExp
	Calls   []*CallExp
	Request string // non-empty: request-level error expected, no data (e.g. unknown operation)
	// AbstractAt: response paths at which a value of abstract type is completed
	AbstractAt map[string]bool
	TopOrder   []string
}

// Emu switches on emulations of recorded defects of the library. They are used only to
// attribute an observed mismatch to a known finding (the un-emulated model is the oracle).
type Emu struct {
	FirstOccPred  bool // presence of a merged field decided by its first occurrence's directives only (C01-F1)
	AllOccSubs    bool // merged sub-selection = union over all occurrences, included or not (C01-F2)
	VisitedAtPlan bool // a fragment counts as visited even when the spread that reached it is excluded at run time (C01-F3)
	ThunkFatal    bool // a failure propagating through a non-null field whose resolver returned a thunk nulls the whole response and drops all other errors (C04-F2)
}

func (e Emu) any() bool { return e.FirstOccPred || e.AllOccSubs || e.VisitedAtPlan }

type executor struct {
	fatal  []*ErrExp
	emu    Emu
	s      *gen.Schema
	doc    *gen.Doc
	env    Env
	vars   map[string]interface{}
	res    *ExecResult
	groups int
}

// Execute interprets the spec's execution algorithm. vars must already be coerced.
func Execute(s *gen.Schema, doc *gen.Doc, opName string, vars map[string]interface{}, env Env) *ExecResult {
	return ExecuteEmu(s, doc, opName, vars, env, Emu{})
}

// RootID is the identity of the request's root value as the model names it (resolvers of
// top-level fields must receive exactly this source). Harnesses that vary the root value
// set it before calling Execute.
var RootID = "$"

// ExecuteEmu is Execute with defect emulations switched on.
func ExecuteEmu(s *gen.Schema, doc *gen.Doc, opName string, vars map[string]interface{}, env Env, emu Emu) *ExecResult {
	ex := &executor{s: s, doc: doc, env: env, vars: vars, res: &ExecResult{}, emu: emu}
	var op *gen.Op
	for _, o := range doc.Ops {
		if opName == "" {
			if op != nil {
				ex.res.Request = "Must provide operation name if query contains multiple operations."
				return ex.res
			}
			op = o
		} else if o.Name == opName {
			op = o
		}
	}
	if op == nil {
		ex.res.Request = "unknown operation"
		return ex.res
	}
	root := s.Query
	switch op.Kind {
	case "mutation":
		root = s.Mutation
	case "subscription":
		root = s.Subscription
	}
	if root == "" {
		ex.res.Request = "schema not configured for " + op.Kind
		return ex.res
	}
	data, failed := ex.selectionSet(root, &Obj{Type: root, ID: RootID}, [][]*gen.Sel{op.Sel}, "")
	if failed {
		ex.res.Data = nil
		ex.absorb(0, 0)
	} else {
		ex.res.Data = data
	}
	if len(ex.fatal) > 0 {
		// emulation of C04-F2: only the error that escaped is reported, data is null
		ex.res.Data = nil
		ex.groups++
		for _, e := range ex.fatal {
			e.Pending, e.Optional, e.Group = false, false, ex.groups
		}
		// errors recorded before the escape are kept, later ones never happen
		for _, e := range ex.res.Errors {
			e.Pending, e.Optional, e.Group = false, true, 0
		}
		ex.res.Errors = append(ex.res.Errors, ex.fatal...)
		for _, c := range ex.res.Calls {
			c.Optional = true
		}
	}
	return ex.res
}

type occ struct {
	sel *gen.Sel
	inc bool
}

type group struct {
	key  string
	occs []occ
}

func (ex *executor) dirBool(d gen.Dir) (bool, bool) {
	for _, a := range d.Args {
		if a.Name == "if" {
			switch a.Val.Kind {
			case gen.VBool:
				return a.Val.B, true
			case gen.VVar:
				b, ok := ex.vars[a.Val.S].(bool)
				return b, ok
			}
		}
	}
	return false, false
}

func (ex *executor) included(ds []gen.Dir) bool {
	for _, d := range ds {
		if d.Name == "skip" {
			if b, ok := ex.dirBool(d); ok && b {
				return false
			}
		}
	}
	for _, d := range ds {
		if d.Name == "include" {
			if b, ok := ex.dirBool(d); ok && !b {
				return false
			}
		}
	}
	return true
}

// staticallyExcluded: a literal @skip(if:true) or @include(if:false).
func staticallyExcluded(ds []gen.Dir) bool {
	for _, d := range ds {
		for _, a := range d.Args {
			if a.Name == "if" && a.Val.Kind == gen.VBool {
				if (d.Name == "skip" && a.Val.B) || (d.Name == "include" && !a.Val.B) {
					return true
				}
			}
		}
	}
	return false
}

func (ex *executor) condMatches(cond string, objType string) bool {
	if cond == objType {
		return true
	}
	return ex.s.IsAbstract(cond) && ex.s.IsPossible(cond, objType)
}

// collect is the spec's CollectFields. chain tells whether every enclosing fragment is
// included; excluded selections are ignored entirely unless a defect emulation needs to
// see them (then they are recorded as not-included occurrences).
func (ex *executor) collect(objType string, sels []*gen.Sel, visited map[string]bool, groups *[]*group, index map[string]int, chain bool) {
	for _, sel := range sels {
		if staticallyExcluded(sel.Dirs) {
			continue
		}
		inc := chain && ex.included(sel.Dirs)
		if !inc && !ex.emu.any() {
			continue
		}
		switch sel.Kind {
		case gen.SField:
			k := sel.Key()
			if i, ok := index[k]; ok {
				(*groups)[i].occs = append((*groups)[i].occs, occ{sel, inc})
			} else {
				index[k] = len(*groups)
				*groups = append(*groups, &group{key: k, occs: []occ{{sel, inc}}})
			}
		case gen.SInline:
			if sel.HasCond && !ex.condMatches(sel.Cond, objType) {
				continue
			}
			ex.collect(objType, sel.Sel, visited, groups, index, inc)
		case gen.SSpread:
			if visited[sel.Name] {
				continue
			}
			if inc || ex.emu.VisitedAtPlan {
				visited[sel.Name] = true
			}
			f := ex.doc.Frag(sel.Name)
			if f == nil || !ex.condMatches(f.Cond, objType) {
				continue
			}
			ex.collect(objType, f.Sel, visited, groups, index, inc)
		}
	}
}

// selectionSet executes the merged selection sets for one object value. It returns the
// response map and whether a non-null failure propagates to the parent.
func (ex *executor) selectionSet(objType string, obj *Obj, sets [][]*gen.Sel, path string) (map[string]interface{}, bool) {
	var groups []*group
	index := map[string]int{}
	visited := map[string]bool{}
	for _, ss := range sets {
		ex.collect(objType, ss, visited, &groups, index, true)
	}
	out := map[string]interface{}{}
	errStart, callStart := len(ex.res.Errors), len(ex.res.Calls)
	failedAny := false
	for _, g := range groups {
		// which occurrences count
		present := false
		for _, o := range g.occs {
			if o.inc {
				present = true
			}
		}
		if ex.emu.FirstOccPred {
			present = g.occs[0].inc
		}
		if !present {
			continue
		}
		fd := ex.s.FieldOf(objType, g.occs[0].sel.Name)
		if fd == nil {
			continue // unknown field: validation should have rejected the document
		}
		p := g.key
		if path != "" {
			p = path + "/" + g.key
		}
		if path == "" {
			ex.res.TopOrder = append(ex.res.TopOrder, g.key)
		}
		v, failed := ex.field(objType, obj, fd, g, p)
		if failed {
			failedAny = true
			continue
		}
		out[g.key] = v
	}
	if failedAny {
		// the object is nulled: everything recorded inside becomes optional, except the
		// still-propagating errors, one of which must be reported
		for _, e := range ex.res.Errors[errStart:] {
			if !e.Pending {
				e.Optional = true
			}
		}
		for _, c := range ex.res.Calls[callStart:] {
			c.Optional = true
		}
		return nil, true
	}
	return out, false
}

// absorb ends the propagation of the pending errors recorded since index before: exactly
// one of them is required if there is one, at least one of them if there are several.
func (ex *executor) absorb(before, callBefore int) {
	var pend []*ErrExp
	for _, e := range ex.res.Errors[before:] {
		if e.Pending {
			pend = append(pend, e)
		} else {
			e.Optional = true // inside the subtree that is nulled here
		}
	}
	for _, c := range ex.res.Calls[callBefore:] {
		c.Optional = true
	}
	if len(pend) == 1 {
		pend[0].Pending = false
		return
	}
	if len(pend) > 1 {
		ex.groups++
		for _, e := range pend {
			e.Pending = false
			e.Group = ex.groups
		}
	}
}

func (ex *executor) field(objType string, obj *Obj, fd *gen.FieldDef, g *group, path string) (interface{}, bool) {
	if fd.Name == "__typename" {
		return objType, false
	}
	args := ArgumentValues(ex.s, fd.Args, g.occs[0].sel.Args, ex.vars)
	nInc := 0
	for _, o := range g.occs {
		if o.inc {
			nInc++
		}
	}
	call := &CallExp{Path: path, Source: obj.ID, ParentType: objType, Field: fd.Name, ReturnType: fd.Type.String(), Args: Canon(args), Occ: nInc, Order: len(ex.res.Calls)}
	ex.res.Calls = append(ex.res.Calls, call)
	oc := ex.env.OutcomeAt(path)
	fail := func(why string) (interface{}, bool) {
		ex.res.Errors = append(ex.res.Errors, &ErrExp{Path: path, Why: why, Pending: fd.Type.IsNonNull()})
		return nil, fd.Type.IsNonNull()
	}
	if oc.Fails() {
		if ex.emu.ThunkFatal && oc.Thunk() && fd.Type.IsNonNull() {
			e := &ErrExp{Path: path, Why: "failing thunk in non-null position"}
			ex.fatal = append(ex.fatal, e)
		}
		return fail("resolver " + OutcomeNames[oc])
	}
	var raw interface{}
	if !oc.IsNil() {
		raw = RawValue(ex.s, ex.env, fd.Type, path)
	}
	var subs [][]*gen.Sel
	for _, o := range g.occs {
		if o.inc || ex.emu.AllOccSubs {
			subs = append(subs, o.sel.Sel)
		}
	}
	before, cbefore := len(ex.res.Errors), len(ex.res.Calls)
	v, failed := ex.complete(fd.Type, raw, subs, path)
	if failed {
		if ex.emu.ThunkFatal && oc.Thunk() && fd.Type.IsNonNull() {
			for _, e := range ex.res.Errors[before:] {
				if e.Pending {
					ex.fatal = append(ex.fatal, &ErrExp{Path: e.Path, Why: e.Why})
				}
			}
		}
		if fd.Type.IsNonNull() {
			return nil, true
		}
		ex.absorb(before, cbefore)
		return nil, false
	}
	return v, false
}

// complete returns the completed value and whether a failure propagates out of this position.
func (ex *executor) complete(t *gen.TypeRef, raw interface{}, subs [][]*gen.Sel, path string) (interface{}, bool) {
	if t.Kind == gen.TNonNull {
		v, failed := ex.complete(t.Of, raw, subs, path)
		if failed {
			return nil, true
		}
		if v == nil {
			ex.res.Errors = append(ex.res.Errors, &ErrExp{Path: fieldPathOf(path), Why: "null in non-null position at " + path, Pending: true})
			return nil, true
		}
		return v, false
	}
	if raw == nil {
		return nil, false
	}
	if t.Kind == gen.TList {
		items := raw.([]interface{})
		out := make([]interface{}, 0, len(items))
		anyFailed := false
		for i, it := range items {
			before, cbefore := len(ex.res.Errors), len(ex.res.Calls)
			v, failed := ex.complete(t.Of, it, subs, path+"/"+strconv.Itoa(i))
			if failed {
				if t.Of.IsNonNull() {
					// the whole list fails; the remaining items are still visited (an
					// implementation may have resolved them already), their records end
					// up optional when the failure is absorbed further up
					anyFailed = true
					continue
				}
				ex.absorb(before, cbefore)
				v = nil
			}
			out = append(out, v)
		}
		if anyFailed {
			return nil, true
		}
		return out, false
	}
	td := ex.s.Type(t.Name)
	switch td.Kind {
	case gen.KScalar, gen.KEnum:
		return Serialize(ex.s, t.Name, raw), false
	}
	o := raw.(*Obj)
	rt := o.Type
	if td.Kind != gen.KObject {
		if ex.res.AbstractAt == nil {
			ex.res.AbstractAt = map[string]bool{}
		}
		ex.res.AbstractAt[path] = true
	}
	if td.Kind != gen.KObject && !ex.s.IsPossible(t.Name, rt) {
		ex.res.Errors = append(ex.res.Errors, &ErrExp{Path: path, Why: "runtime type " + rt + " not possible for " + t.Name, Pending: true})
		return nil, true
	}
	m, failed := ex.selectionSet(rt, o, subs, path)
	if failed {
		return nil, true
	}
	return m, false
}

// fieldPathOf: errors for list items are reported at the item path by the library
// (path includes the index), so the identity function is right; kept as a seam.
func fieldPathOf(path string) string { return path }

// ---- comparison helpers ----

// PathString renders a response path ([]interface{} of string keys and int indices).
func PathString(p []interface{}) string {
	parts := make([]string, len(p))
	for i, e := range p {
		parts[i] = fmt.Sprint(e)
	}
	return strings.Join(parts, "/")
}

// CheckErrors compares observed error paths with the prediction: every required error
// present, at least one of every candidate group, nothing observed that is neither
// required nor optional.
func CheckErrors(exp []*ErrExp, obs []string) string {
	obsCount := map[string]int{}
	for _, p := range obs {
		obsCount[p]++
	}
	allowed := map[string]int{}
	groupSeen := map[int]bool{}
	groups := map[int]string{}
	for _, e := range exp {
		allowed[e.Path]++
		if e.Group > 0 {
			groups[e.Group] += " " + e.Path
			if obsCount[e.Path] > 0 {
				groupSeen[e.Group] = true
			}
			continue
		}
		if !e.Optional && obsCount[e.Path] == 0 {
			return fmt.Sprintf("missing error for path %q (%s)", e.Path, e.Why)
		}
	}
	for g, ps := range groups {
		if !groupSeen[g] {
			return "missing an error for one of the failures" + ps
		}
	}
	var ps []string
	for p := range obsCount {
		ps = append(ps, p)
	}
	sort.Strings(ps)
	for _, p := range ps {
		if obsCount[p] > allowed[p] {
			return fmt.Sprintf("unexpected error at path %q (observed %d, predicted at most %d)", p, obsCount[p], allowed[p])
		}
	}
	return ""
}

// DeepEqualJSON compares response trees (maps, slices, scalars); ints and floats compare numerically.
func DeepEqualJSON(a, b interface{}) bool {
	switch x := a.(type) {
	case nil:
		return b == nil || isNilMap(b)
	case map[string]interface{}:
		y, ok := b.(map[string]interface{})
		if !ok {
			return false
		}
		if x == nil || y == nil {
			return (x == nil) == (y == nil)
		}
		if len(x) != len(y) {
			return false
		}
		for k, v := range x {
			w, ok := y[k]
			if !ok || !DeepEqualJSON(v, w) {
				return false
			}
		}
		return true
	case []interface{}:
		y, ok := b.([]interface{})
		if !ok || len(x) != len(y) {
			return false
		}
		for i := range x {
			if !DeepEqualJSON(x[i], y[i]) {
				return false
			}
		}
		return true
	case int:
		switch y := b.(type) {
		case int:
			return x == y
		case float64:
			return float64(x) == y
		}
		return false
	case float64:
		switch y := b.(type) {
		case int:
			return x == float64(y)
		case float64:
			return x == y
		}
		return false
	default:
		return a == b
	}
}

func isNilMap(v interface{}) bool {
	m, ok := v.(map[string]interface{})
	return ok && m == nil
}
