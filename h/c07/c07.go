// Package c07 decides C07 (one schema, plan and plan cache serve concurrent requests
// safely): 2-3 threads issue requests against a cold schema / a shared plan / a shared
// cache under the cooperative scheduler; every interleaving at synchronisation
// granularity up to a preemption bound is explored, with the race detector seeing only the
// library's own synchronisation in every one of them.
package c07

import (
	"context"
	"encoding/json"
	"fmt"
	"strings"

	"github.com/graphql-go/graphql"
	"github.com/graphql-go/graphql/language/parser"
	"github.com/graphql-go/graphql/language/source"
	"github.com/graphql-go/graphql/vsched"

	"verif/explore"
	"verif/h/bridge"
	"verif/h/c16"
	"verif/h/core"
	"verif/h/gen"
	"verif/h/model"
	"verif/h/sx"
	"verif/report"
)

func init() { core.Register("C07", &core.Check{Run: run, Replay: replay, Race: true}) }

type variantKey struct{}

// pure, thread-safe hooks: the runtime type of abstract positions is the request's
// "variant" (carried in the context), so threads can resolve different concrete types.
type hooks struct{ g *gen.Schema }

type penv struct {
	g       *gen.Schema
	variant int
}

func (e penv) OutcomeAt(string) model.Outcome { return model.OK }
func (e penv) RuntimeType(path, declared string) string {
	p := e.g.PossibleTypes(declared)
	return p[e.variant%len(p)]
}

func (h hooks) Resolve(typeName string, f *gen.FieldDef, p graphql.ResolveParams) (interface{}, error) {
	v, _ := p.Context.Value(variantKey{}).(int)
	if f.Name == "f" {
		// f answers with the arguments it was given and then scribbles on its own copy of
		// them (a resolver owns its Args): nothing of that may reach another request
		out := model.Canon(map[string]interface{}(p.Args))
		for k := range p.Args {
			delete(p.Args, k)
		}
		p.Args["scribbled by variant"] = v
		return out, nil
	}
	return model.RawValue(h.g, penv{h.g, v}, f.Type, model.PathString(p.Info.Path.AsArray())), nil
}
func (h hooks) ResolveType(abstract string, p graphql.ResolveTypeParams) string {
	if o, ok := p.Value.(*model.Obj); ok {
		return o.Type
	}
	return ""
}
func (h hooks) IsTypeOf(object string, p graphql.IsTypeOfParams) bool {
	o, ok := p.Value.(*model.Obj)
	return ok && o.Type == object
}
func (h hooks) Subscribe(f *gen.FieldDef, p graphql.ResolveParams) (interface{}, error) {
	return nil, nil
}

var queries = map[string]string{
	"enum-out":  `{e o{e}}`,
	"enum-in":   `{f(y: B) k: f(in: {a: 1, c: B})}`,
	"enum-both": `{e f(y: B)}`,
	"abstract":  `{i{x ... on O{y} ... on P{z}} u{__typename ... on I{x}}}`,
	"nested":    `{li{x ... on O{i{x ... on P{z} ... on O{y}}} ... on P{o{i{x}}}}}`,
	"introspec": `{__schema{types{name kind possibleTypes{name} enumValues{name}}}}`,
	"frag":      `{o{...F} i{...F}} fragment F on I {x ... on J {y}}`,
	"invalid":   `{nope}`,
	"static":    `{f(x: 3, y: A) k: f(in: {a: 1, b: [2]}) l{f(x: 5)}}`,
	"dynamic":   `query($v: Boolean!) {a @skip(if: $v) o{x y @include(if: $v) o{x}} i{x ... on O @skip(if: $v) {y} ... on P {z}} ...Q @include(if: $v)} fragment Q on Query {b li{x}}`,
}

const (
	opDo         = iota
	opPlanExec   // ExecutePlan on the shared, pre-built plan
	opCacheExec  // cache.Get + ExecutePlan on the shared cache
	opValidate   // ValidateDocument
	opReset      // cache.Reset
	opCacheExecN // cache.Get with Normalize on
)

type op struct {
	kind    int
	q       string
	variant int
}

func (o op) String() string {
	return fmt.Sprintf("%s(%s,variant=%d)", [...]string{"Do", "ExecutePlan", "cache.Get+ExecutePlan", "ValidateDocument", "cache.Reset", "normalising cache.Get+ExecutePlan"}[o.kind], o.q, o.variant)
}

type scenario struct {
	name    string
	threads [][]op
	planQ   string // query the shared plan is built from (if any opPlanExec)
	maxEnt  int
	warm    []string // queries stored in the shared caches before the threads start (oldest first)
}

func scenarios(thorough bool) []scenario {
	s := []scenario{
		{name: "two cold Do touching an enum", threads: [][]op{{{opDo, "enum-both", 0}}, {{opDo, "enum-both", 0}}}},
		{name: "enum out and enum in", threads: [][]op{{{opDo, "enum-out", 0}}, {{opDo, "enum-in", 0}}}},
		{name: "two cold Do over abstract types, different runtime types", threads: [][]op{{{opDo, "abstract", 0}}, {{opDo, "abstract", 1}}}},
		{name: "shared plan, nested abstract fields, different runtime types", threads: [][]op{{{opPlanExec, "nested", 0}}, {{opPlanExec, "nested", 1}}}, planQ: "nested"},
		{name: "shared plan executed twice per thread", threads: [][]op{{{opPlanExec, "abstract", 0}, {opPlanExec, "abstract", 1}}, {{opPlanExec, "abstract", 1}}}, planQ: "abstract"},
		{name: "shared cache, same key", threads: [][]op{{{opCacheExec, "frag", 0}}, {{opCacheExec, "frag", 1}}}, maxEnt: 2},
		{name: "shared cache, three gets of one key", threads: [][]op{{{opCacheExec, "enum-out", 0}}, {{opCacheExec, "enum-out", 0}}, {{opCacheExec, "enum-out", 0}}}, maxEnt: 2},
		{name: "shared cache of size 1, two keys and a reset", threads: [][]op{{{opCacheExec, "frag", 0}}, {{opCacheExec, "enum-out", 0}}, {{opReset, "", 0}}}, maxEnt: 1},
		{name: "normalising cache, literal-only difference", threads: [][]op{{{opCacheExecN, "enum-in", 0}}, {{opCacheExecN, "enum-in", 0}}}, maxEnt: 2},
		{name: "shared plan, literal arguments, resolvers that scribble on their arguments", threads: [][]op{{{opPlanExec, "static", 0}}, {{opPlanExec, "static", 1}}}, planQ: "static"},
		{name: "shared cache, literal arguments, resolvers that scribble on their arguments", threads: [][]op{{{opCacheExec, "static", 0}}, {{opCacheExec, "static", 1}, {opCacheExec, "static", 0}}}, maxEnt: 2},
		{name: "shared plan with variable-driven directives, different variables", threads: [][]op{{{opPlanExec, "dynamic", 0}}, {{opPlanExec, "dynamic", 1}}}, planQ: "dynamic"},
		{name: "shared cache, variable-driven directives", threads: [][]op{{{opCacheExec, "dynamic", 1}}, {{opCacheExec, "dynamic", 0}, {opCacheExecN, "dynamic", 1}}}, maxEnt: 2},
		{name: "validation and execution on a cold schema", threads: [][]op{{{opValidate, "frag", 0}}, {{opDo, "abstract", 1}}}},
		{name: "introspection next to execution on a cold schema", threads: [][]op{{{opDo, "introspec", 0}}, {{opDo, "nested", 1}}}},
		{name: "warm cache, hits on two different keys", threads: [][]op{{{opCacheExec, "frag", 0}}, {{opCacheExec, "enum-out", 0}}}, maxEnt: 3, warm: []string{"frag", "enum-out", "abstract"}},
		{name: "warm cache of size 2, a hit on the oldest key next to a miss that evicts", threads: [][]op{{{opCacheExec, "frag", 0}}, {{opCacheExec, "abstract", 1}}}, maxEnt: 2, warm: []string{"frag", "enum-out"}},
		{name: "invalid request next to a valid one", threads: [][]op{{{opDo, "invalid", 0}}, {{opDo, "enum-out", 0}}}},
	}
	if thorough {
		s = append(s,
			scenario{name: "three cold Do", threads: [][]op{{{opDo, "enum-out", 0}}, {{opDo, "abstract", 1}}, {{opDo, "introspec", 0}}}},
			scenario{name: "three threads on a shared plan", threads: [][]op{{{opPlanExec, "nested", 0}}, {{opPlanExec, "nested", 1}}, {{opPlanExec, "nested", 0}}}, planQ: "nested"},
			scenario{name: "cache: two gets each", threads: [][]op{{{opCacheExec, "frag", 0}, {opCacheExec, "abstract", 1}}, {{opCacheExec, "abstract", 0}, {opCacheExec, "frag", 1}}}, maxEnt: 1},
		)
	}
	return s
}

type shared struct {
	b     *bridge.Built
	plan  *graphql.Plan
	cache *graphql.PlanCache
	ncach *graphql.PlanCache
}

func newShared(g *gen.Schema, sc scenario) (*shared, error) {
	b, err := bridge.Build(g, bridge.Options{})
	if err != nil {
		return nil, err
	}
	b.H = hooks{g}
	sh := &shared{b: b}
	if sc.planQ != "" {
		doc, perr := parser.Parse(parser.ParseParams{Source: source.NewSource(&source.Source{Body: []byte(queries[sc.planQ])})})
		if perr != nil {
			return nil, perr
		}
		sh.plan, err = graphql.PlanQuery(&b.Schema, doc, "")
		if err != nil {
			return nil, err
		}
	}
	if sc.maxEnt > 0 {
		sh.cache = graphql.NewPlanCache(graphql.PlanCacheOptions{MaxEntries: sc.maxEnt})
		sh.ncach = graphql.NewPlanCache(graphql.PlanCacheOptions{MaxEntries: sc.maxEnt, Normalize: true})
		for _, q := range sc.warm {
			sh.cache.Get(&b.Schema, queries[q], "")
			sh.ncach.Get(&b.Schema, queries[q], "")
		}
	}
	return sh, nil
}

func perform(sh *shared, o op) (out string) {
	defer func() {
		if r := recover(); r != nil {
			out = fmt.Sprintf("PANIC: %v", r)
		}
	}()
	ctx := context.WithValue(context.Background(), variantKey{}, o.variant)
	var vars map[string]interface{}
	if strings.Contains(queries[o.q], "$v") {
		vars = map[string]interface{}{"v": o.variant%2 == 1}
	}
	js := func(r *graphql.Result) string {
		b, err := json.Marshal(r)
		if err != nil {
			return "MARSHAL: " + err.Error()
		}
		return string(b)
	}
	switch o.kind {
	case opDo:
		return js(graphql.Do(graphql.Params{Schema: sh.b.Schema, RequestString: queries[o.q], Context: ctx, VariableValues: vars}))
	case opPlanExec:
		return js(graphql.ExecutePlan(sh.plan, graphql.ExecuteParams{Schema: sh.b.Schema, Context: ctx, Args: vars}))
	case opCacheExec, opCacheExecN:
		c := sh.cache
		if o.kind == opCacheExecN {
			c = sh.ncach
		}
		pr := c.Get(&sh.b.Schema, queries[o.q], "")
		if len(pr.Errors) > 0 {
			return js(&graphql.Result{Errors: pr.Errors})
		}
		args := pr.SynthArgs
		if vars != nil {
			args = map[string]interface{}{}
			for k, v := range pr.SynthArgs {
				args[k] = v
			}
			for k, v := range vars {
				args[k] = v
			}
		}
		return js(graphql.ExecutePlan(pr.Plan, graphql.ExecuteParams{Schema: sh.b.Schema, Context: ctx, Args: args}))
	case opValidate:
		doc, perr := parser.Parse(parser.ParseParams{Source: source.NewSource(&source.Source{Body: []byte(queries[o.q])})})
		if perr != nil {
			return "PARSE: " + perr.Error()
		}
		vr := graphql.ValidateDocument(&sh.b.Schema, doc, nil)
		b, _ := json.Marshal(vr.Errors)
		return fmt.Sprintf("valid=%v %s", vr.IsValid, b)
	case opReset:
		sh.cache.Reset()
		sh.ncach.Reset()
		return "reset"
	}
	return "?"
}

type outcome struct {
	bad     string
	dig     uint64
	results []string
	steps   int
}

type slots struct {
	res [4][3]string
}

func execute(x *explore.X, g *gen.Schema, sc scenario, baseline map[string]string, horizon int) outcome {
	sh, err := newShared(g, sc)
	if err != nil {
		return outcome{bad: "HARNESS shared objects: " + err.Error()}
	}
	var sl slots
	vsched.Begin(sx.Chooser(x), horizon)
	ids := make([]int, len(sc.threads))
	for ti, ops := range sc.threads {
		ti, ops := ti, ops
		ids[ti] = vsched.Go(fmt.Sprintf("client%d", ti), func() {
			for oi, o := range ops {
				sl.res[ti][oi] = perform(sh, o)
			}
		})
	}
	sum := vsched.End()
	var out outcome
	out.steps = sum.Steps
	set := func(s string) {
		if out.bad == "" {
			out.bad = s
		}
	}
	for _, t := range sum.Threads {
		if t.Panicked {
			set(fmt.Sprintf("thread %d (%s) panicked: %v", t.ID, t.Site, t.PanicVal))
		}
		if !t.Finished {
			set(fmt.Sprintf("deadlock: thread %d (%s) is blocked forever in %s at %s", t.ID, t.Site, t.Parked, t.OpSite))
		}
	}
	if sum.Livelock {
		set("scheduling horizon exceeded (livelock?)")
	}
	for ti, ops := range sc.threads {
		for oi, o := range ops {
			r := sl.res[ti][oi]
			out.results = append(out.results, r)
			if strings.HasPrefix(r, "PANIC") {
				set(fmt.Sprintf("%s panicked: %s", o, r))
			}
			if want, ok := baseline[o.String()]; ok && o.kind != opReset && r != want && r != "" {
				set(fmt.Sprintf("%s returned %s, alone it returns %s", o, r, want))
			}
		}
	}
	out.dig = report.H(strings.Join(out.results, "|"))
	return out
}

// baselines: every operation run alone on a cold schema (inside a one-thread execution).
func baselines(g *gen.Schema, sc scenario) (map[string]string, string) {
	base := map[string]string{}
	for _, ops := range sc.threads {
		for _, o := range ops {
			if _, ok := base[o.String()]; ok || o.kind == opReset {
				continue
			}
			sh, err := newShared(g, sc)
			if err != nil {
				return nil, err.Error()
			}
			var r string
			o := o
			x0 := explore.Replay(nil, 0, func(x *explore.X, owned bool) uint64 {
				vsched.Begin(sx.Chooser(x), 2000)
				vsched.Go("alone", func() { r = perform(sh, o) })
				vsched.End()
				return 0
			})
			_ = x0
			base[o.String()] = r
		}
	}
	return base, ""
}

func run(c *core.Ctx) {
	g := gen.KitchenCovariant()
	bound := c.Pick(2, 3)
	horizon := 3000
	c.R.Rule = "case = (scenario: 2-3 client threads x 1-2 operations among Do / ExecutePlan on a shared plan / PlanCache.Get+ExecutePlan / ValidateDocument / Reset, every object cold) x every schedule with <= bound preemptions; each response compared with the same operation run alone; non-trivial = all (every scenario shares lazily initialised state); distinct by hash of (scenario, schedule)"
	c.R.Assumptions = []string{"scheduling only at synchronisation operations is sound for data-race-free programs; unsynchronised conflicting accesses are reported by the race detector in every explored schedule (hand-offs are invisible to it)", "vsched models Go mutex/channel/select semantics", "Go race detector", "instrumenter rewrites preserve semantics"}
	c.R.Bounds["preemptions"] = bound
	rl := sx.NewRaceLog()
	if rl.Enabled() {
		bound = c.Pick(1, 2)
		c.R.Bounds["race_pass_preemptions"] = bound
		delete(c.R.Bounds, "preemptions")
	}
	scs := scenarios(!c.Quick())
	c.R.Bounds["scenarios"] = len(scs)
	for si, sc := range scs {
		base, berr := baselines(g, sc)
		if berr != "" {
			c.R.HarnessError("baseline: %s", berr)
			return
		}
		rl.New() // races inside a baseline run cannot exist (one thread); drop anything stale
		e := c.Explorer(bound)
		e.MaxPoints = 8000
		e.StatePruning = true
		e.Run(func(x *explore.X, owned bool) uint64 {
			out := execute(x, g, sc, base, horizon)
			raceText := rl.New()
			if !owned {
				return out.dig
			}
			c.R.Evaluations++
			c.R.States++
			c.R.Outcome(report.H(fmt.Sprint(si) + strings.Join(out.results, "|")))
			c.R.Nontriv(report.H(fmt.Sprint(si, x.Trace())))
			if c.R.WantSample() {
				c.R.Sample(map[string]interface{}{"scenario": sc.name, "schedule": x.Trace(), "scheduling_points": out.steps, "responses": trunc(out.results)})
			}
			if strings.HasPrefix(out.bad, "HARNESS") {
				c.R.HarnessError("%s", out.bad)
			} else if out.bad != "" {
				c.Mismatch("", sigOf(out.bad), fmt.Sprintf("%s, schedule %v: %s", sc.name, x.Trace(), out.bad), map[string]interface{}{"scenario": si, "choices": x.Trace(), "thorough": !c.Quick()})
			}
			for _, rep := range sx.Parse(raceText) {
				c.Mismatch(c16.RaceFinding(rep), "race "+strings.Join(rep.Funcs, " / "), fmt.Sprintf("%s, schedule %v: data race between %v at %v", sc.name, x.Trace(), rep.Funcs, rep.Sites),
					map[string]interface{}{"scenario": si, "choices": x.Trace(), "race": rep.Text, "thorough": !c.Quick()})
			}
			return out.dig
		})
		c.Absorb(e)
		c.R.Count("executions_cut_short_by_state_pruning", e.Pruned)
		if c.Expired() {
			return
		}
	}
}

func trunc(rs []string) []string {
	out := make([]string, len(rs))
	for i, r := range rs {
		if len(r) > 160 {
			r = r[:160] + "..."
		}
		out[i] = r
	}
	return out
}

func sigOf(s string) string {
	f := strings.Fields(s)
	if len(f) > 6 {
		f = f[:6]
	}
	return strings.Join(f, " ")
}

func replay(c *core.Ctx, p map[string]interface{}) (bool, string) {
	si := int(p["scenario"].(float64))
	var choices []int
	for _, v := range p["choices"].([]interface{}) {
		choices = append(choices, int(v.(float64)))
	}
	th, _ := p["thorough"].(bool)
	scs := scenarios(th)
	if si >= len(scs) {
		return false, "unknown scenario"
	}
	g := gen.KitchenCovariant()
	base, berr := baselines(g, scs[si])
	if berr != "" {
		return false, berr
	}
	rl := sx.NewRaceLog()
	var out outcome
	explore.Replay(choices, 0, func(x *explore.X, owned bool) uint64 {
		out = execute(x, g, scs[si], base, 3000)
		return out.dig
	})
	if t := rl.New(); t != "" {
		return false, "data race reported:\n" + t
	}
	if out.bad != "" {
		return false, out.bad
	}
	return true, "schedule satisfies the property"
}
