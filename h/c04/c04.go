// Package c04 decides C04 (responses are well-formed whatever resolvers return): for
// every nullability lattice of a three-level path and every placement of a bounded number
// of adversarial resolver / type-resolver outcomes, the response of the real executor is
// judged by an intrinsic schema-conformance oracle (no reference interpreter needed):
// only selected keys, legal leaves, lists where lists belong, no null in a non-null
// position, nulls exactly at the nearest nullable ancestor of a failure, an error for
// every explicit failure, nothing else disturbed.
package c04

import (
	"encoding/json"
	"errors"
	"fmt"
	"math"
	"strconv"
	"strings"

	"github.com/graphql-go/graphql"

	"verif/explore"
	"verif/h/bridge"
	"verif/h/core"
	"verif/h/gen"
	"verif/h/model"
	"verif/report"
)

func init() { core.Register("C04", &core.Check{Run: run, Replay: replay}) }

// ---- outcomes ----

const (
	oOK = iota
	oNil
	oTypedNil
	oNaN
	oStringForList
	oIntForObject
	oSliceForLeaf
	oBigInt
	oUnknownEnum
	oErr
	oValErr
	oPanicErr
	oPanicString
	oPanicInt
	oThunkOK
	oThunkErr
	oThunkNil
	oThunkPanic
	oWrongFunc
	oStringNaN
	oStringInf
	oListThunks
	oBadItem
	nOutcomes
)

var outcomeNames = []string{"ok", "nil", "typed-nil", "NaN", "string-for-list", "int-for-object", "slice-for-leaf", "2^31", "unknown-enum-value",
	"error", "value+error", "panic(error)", "panic(string)", "panic(int)", "thunk-ok", "thunk-error", "thunk-nil", "thunk-panics", "wrong-signature-func", "string-NaN", "string-Inf", "list-of-thunks", "wrong-kind-first-item"}

func explicit(o int) bool {
	switch o {
	case oErr, oValErr, oPanicErr, oPanicString, oPanicInt, oThunkErr, oThunkPanic:
		return true
	}
	return false
}

type trouble struct {
	path     string
	what     string
	explicit bool
}

type hooks struct {
	g        *gen.Schema
	x        *explore.X
	troubles []trouble
	calls    map[string]int
	decided  map[string]int
	rtDec    map[string]int
	// only, when set, restricts the fault alphabet (index 0 stays "ok")
	only []int
}

func (h *hooks) OutcomeAt(string) model.Outcome { return model.OK }
func (h *hooks) RuntimeType(path, declared string) string {
	return h.g.PossibleTypes(declared)[0]
}

func (h *hooks) Resolve(typeName string, f *gen.FieldDef, p graphql.ResolveParams) (interface{}, error) {
	path := model.PathString(p.Info.Path.AsArray())
	h.calls[path]++
	o, ok := h.decided[path]
	if !ok {
		o = 0
		if h.x != nil && h.only != nil {
			if k := h.x.Dev(len(h.only)+1, "outcome"); k > 0 {
				o = h.only[k-1]
			}
		} else if h.x != nil {
			o = h.x.Dev(nOutcomes, "outcome")
		}
		h.decided[path] = o
		if o == oBadItem {
			// the fault sits in the first item of the list, not in the list
			if l, ok := model.RawValue(h.g, h, f.Type, path).([]interface{}); ok && len(l) >= 2 {
				h.troubles = append(h.troubles, trouble{path: path + "/0", what: outcomeNames[o]})
			} else {
				h.troubles = append(h.troubles, trouble{path: path, what: outcomeNames[o]})
			}
		} else if o != oOK {
			h.troubles = append(h.troubles, trouble{path: path, what: outcomeNames[o], explicit: explicit(o)})
		}
	}
	raw := model.RawValue(h.g, h, f.Type, path)
	switch o {
	case oNil:
		return nil, nil
	case oTypedNil:
		return (*model.Obj)(nil), nil
	case oNaN:
		return math.NaN(), nil
	case oStringForList:
		return "not a list", nil
	case oIntForObject:
		return 5, nil
	case oSliceForLeaf:
		return []interface{}{1, "two"}, nil
	case oBigInt:
		return int(1) << 31, nil
	case oUnknownEnum:
		return 999, nil
	case oErr:
		return nil, errors.New("E@" + path)
	case oValErr:
		return raw, errors.New("E@" + path)
	case oPanicErr:
		panic(errors.New("P@" + path))
	case oPanicString:
		panic("P@" + path)
	case oPanicInt:
		panic(42)
	case oThunkOK:
		return func() (interface{}, error) { return raw, nil }, nil
	case oThunkErr:
		return func() (interface{}, error) { return nil, errors.New("E@" + path) }, nil
	case oThunkNil:
		return func() (interface{}, error) { return nil, nil }, nil
	case oThunkPanic:
		return func() (interface{}, error) { panic("TP@" + path) }, nil
	case oWrongFunc:
		return func() int { return 1 }, nil
	case oStringNaN:
		return "NaN", nil
	case oStringInf:
		return "+Inf", nil
	case oBadItem:
		// a value of the wrong kind (a slice: unhashable, not a leaf, not an object) as the
		// first item of a list, next to good items
		if l, ok := raw.([]interface{}); ok && len(l) >= 2 {
			out := append([]interface{}{}, l...)
			out[0] = []interface{}{1, "two"}
			return out, nil
		}
		return []interface{}{1, "two"}, nil
	case oListThunks:
		// every element of a list deferred on its own (the value itself when it is no list)
		if l, ok := raw.([]interface{}); ok {
			out := make([]interface{}, len(l))
			for i := range l {
				e := l[i]
				out[i] = func() (interface{}, error) { return e, nil }
			}
			return out, nil
		}
	}
	return raw, nil
}

// rtKinds: answers of a type resolver (right, nil, a non-member; thorough tier: a panic)
var rtKinds = 3

func (h *hooks) ResolveType(abstract string, p graphql.ResolveTypeParams) string {
	path := model.PathString(p.Info.Path.AsArray())
	key := path + "|rt|" + fmt.Sprint(p.Value)
	d, ok := h.rtDec[key]
	if !ok {
		if h.x != nil {
			d = h.x.Dev(rtKinds, "resolve-type")
		}
		h.rtDec[key] = d
		if d != 0 {
			h.troubles = append(h.troubles, trouble{path: path, what: [...]string{"", "ResolveType returns nil", "ResolveType returns a non-member", "ResolveType panics"}[d]})
		}
	}
	switch d {
	case 1:
		return ""
	case 2:
		return "B"
	case 3:
		panic(fmt.Errorf("RT@%s", path))
	}
	if o, ok := p.Value.(*model.Obj); ok && o != nil {
		return o.Type
	}
	return ""
}
func (h *hooks) IsTypeOf(object string, p graphql.IsTypeOfParams) bool { return true }
func (h *hooks) Subscribe(f *gen.FieldDef, p graphql.ResolveParams) (interface{}, error) {
	return nil, nil
}

// ---- lattice schemas ----

var wrappers = []string{"%s", "%s!", "[%s]", "[%s]!", "[%s!]", "[%s!]!", "[[%s!]]"}
var leafTypes = []string{"String", "Int", "E", "Float", "Boolean"}
var level1 = []string{"A", "IA", "UA"}

type lattice struct {
	w1, w2, w3 int
	l1         int
	leaf       int
	// mut: the same selection as a mutation (top-level fields forced one after another,
	// everything deferred below them depth first)
	mut bool
}

func (l lattice) String() string {
	root := "Query"
	if l.mut {
		root = "Mutation"
	}
	return fmt.Sprintf("%s.f1:%s A.f2:%s B.f3:%s", root, fmt.Sprintf(wrappers[l.w1], level1[l.l1]), fmt.Sprintf(wrappers[l.w2], "B"), fmt.Sprintf(wrappers[l.w3], leafTypes[l.leaf]))
}

func (l lattice) schema() *gen.Schema {
	s := &gen.Schema{Query: "Query"}
	s.Add(&gen.TypeDef{Kind: gen.KEnum, Name: "E", Values: []*gen.EnumVal{{Name: "A", Internal: 10}, {Name: "B", Internal: 20}}})
	s.Add(&gen.TypeDef{Kind: gen.KObject, Name: "B", Fields: []*gen.FieldDef{gen.F("f3:" + fmt.Sprintf(wrappers[l.w3], leafTypes[l.leaf])), gen.F("sb:String")}})
	f2 := "f2:" + fmt.Sprintf(wrappers[l.w2], "B")
	s.Add(&gen.TypeDef{Kind: gen.KInterface, Name: "IA", Fields: []*gen.FieldDef{gen.F(f2), gen.F("sa:String")}})
	s.Add(&gen.TypeDef{Kind: gen.KObject, Name: "A", Interfaces: []string{"IA"}, Fields: []*gen.FieldDef{gen.F(f2), gen.F("sa:String")}})
	s.Add(&gen.TypeDef{Kind: gen.KObject, Name: "A2", Interfaces: []string{"IA"}, Fields: []*gen.FieldDef{gen.F(f2), gen.F("sa:String")}})
	s.Add(&gen.TypeDef{Kind: gen.KUnion, Name: "UA", Members: []string{"A", "A2"}})
	s.Add(&gen.TypeDef{Kind: gen.KObject, Name: "Query", Fields: []*gen.FieldDef{gen.F("f1:" + fmt.Sprintf(wrappers[l.w1], level1[l.l1])), gen.F("q:String"), gen.F("r:Int!")}})
	if l.mut {
		s.Mutation = "Mutation"
		s.Add(&gen.TypeDef{Kind: gen.KObject, Name: "Mutation", Fields: s.Types["Query"].Fields})
	}
	return s
}

func (l lattice) query() string {
	if l.mut {
		l.mut = false
		return "mutation " + l.query()
	}
	switch level1[l.l1] {
	case "UA":
		return `{q f1 {__typename ... on A {f2 {f3 sb} sa} ... on A2 {f2 {f3 sb} sa}} r}`
	case "IA":
		return `{q f1 {__typename f2 {f3 sb} ... on A {sa} ... on A2 {sa}} r}`
	}
	return `{q f1 {__typename f2 {f3 sb} sa} r}`
}

// position typing: path -> type of that response position
func (l lattice) typeAt(path []string) *gen.TypeRef {
	if len(path) == 0 {
		return gen.Named("Query")
	}
	s := l.schema()
	var t *gen.TypeRef
	cur := "Query"
	for _, seg := range path {
		if _, err := strconv.Atoi(seg); err == nil && t != nil {
			t = t.Nullable()
			if t.Kind != gen.TList {
				return nil
			}
			t = t.Of
			continue
		}
		if t != nil {
			cur = t.Base()
			if cur == "IA" || cur == "UA" {
				cur = "A"
			}
		}
		fd := s.FieldOf(cur, seg)
		if fd == nil {
			return nil
		}
		t = fd.Type
	}
	return t
}

// nearestNullable returns the position a failure at path nulls: walk up while the position
// is non-null; "" = data itself.
func (l lattice) nearestNullable(path string) string {
	segs := strings.Split(path, "/")
	for n := len(segs); n > 0; n-- {
		t := l.typeAt(segs[:n])
		if t == nil || !t.IsNonNull() {
			return strings.Join(segs[:n], "/")
		}
	}
	return ""
}

func lookup(data interface{}, path []string) (interface{}, bool) {
	cur := data
	for _, seg := range path {
		switch c := cur.(type) {
		case map[string]interface{}:
			v, ok := c[seg]
			if !ok {
				return nil, false
			}
			cur = v
		case []interface{}:
			i, err := strconv.Atoi(seg)
			if err != nil || i >= len(c) {
				return nil, false
			}
			cur = c[i]
		default:
			return nil, false
		}
	}
	return cur, true
}

func isNil(v interface{}) bool {
	if v == nil {
		return true
	}
	if m, ok := v.(map[string]interface{}); ok && m == nil {
		return true
	}
	return false
}

// ---- the intrinsic oracle ----

type judge struct {
	l        lattice
	troubles []trouble
	bad      string
}

func (j *judge) fail(format string, a ...interface{}) {
	if j.bad == "" {
		j.bad = fmt.Sprintf(format, a...)
	}
}

func legalLeaf(name string, v interface{}) bool {
	switch name {
	case "String":
		_, ok := v.(string)
		return ok
	case "Boolean":
		_, ok := v.(bool)
		return ok
	case "Int":
		i, ok := v.(int)
		return ok && i >= math.MinInt32 && i <= math.MaxInt32
	case "Float":
		f, ok := v.(float64)
		if ok {
			return !math.IsNaN(f) && !math.IsInf(f, 0)
		}
		_, ok = v.(int)
		return ok
	case "E":
		return v == "A" || v == "B"
	}
	return false
}

var selected = map[string][]string{
	"Query": {"q", "f1", "r"}, "A": {"__typename", "f2", "sa"}, "B": {"f3", "sb"},
}

func (j *judge) walk(t *gen.TypeRef, v, base interface{}, path string) {
	if j.bad != "" {
		return
	}
	if t.Kind == gen.TNonNull {
		if isNil(v) {
			j.fail("null in the non-null position %q", path)
			return
		}
		j.walk(t.Of, v, base, path)
		return
	}
	if isNil(v) {
		if !isNil(base) {
			j.justify(path)
		}
		return
	}
	if t.Kind == gen.TList {
		lv, ok := v.([]interface{})
		if !ok {
			j.fail("position %q of type %s holds %T, not a list", path, t, v)
			return
		}
		bl, _ := base.([]interface{})
		for i, e := range lv {
			var be interface{}
			if i < len(bl) {
				be = bl[i]
			}
			j.walk(t.Of, e, be, path+"/"+strconv.Itoa(i))
		}
		if bl != nil && len(lv) != len(bl) {
			j.justifyChange(path, fmt.Sprintf("list has %d items, %d without faults", len(lv), len(bl)))
		}
		return
	}
	name := t.Name
	switch name {
	case "A", "IA", "UA", "B", "Query":
		m, ok := v.(map[string]interface{})
		if !ok {
			j.fail("position %q of type %s holds %T, not an object", path, t, v)
			return
		}
		obj := name
		if obj == "IA" || obj == "UA" {
			obj = "A"
		}
		want := selected[obj]
		for k := range m {
			found := false
			for _, w := range want {
				if w == k {
					found = true
				}
			}
			if !found {
				j.fail("object at %q has the unselected key %q", path, k)
				return
			}
		}
		bm, _ := base.(map[string]interface{})
		s := j.l.schema()
		for _, k := range want {
			cv, present := m[k]
			if !present {
				j.fail("object at %q lacks the selected key %q", path, k)
				return
			}
			p := k
			if path != "" {
				p = path + "/" + k
			}
			if k == "__typename" {
				if cv != "A" && cv != "A2" {
					j.fail("__typename at %q is %v", p, cv)
				}
				continue
			}
			fd := s.FieldOf(obj, k)
			var bv interface{}
			if bm != nil {
				bv = bm[k]
			}
			j.walk(fd.Type, cv, bv, p)
		}
		return
	}
	if !legalLeaf(name, v) {
		j.fail("leaf at %q of type %s is %T(%v), not a legal serialisation", path, name, v, v)
		return
	}
	if !isNil(base) && !jsonEq(v, base) {
		j.justifyChange(path, fmt.Sprintf("leaf is %v, %v without faults", v, base))
	}
}

func jsonEq(a, b interface{}) bool {
	x, _ := json.Marshal(a)
	y, _ := json.Marshal(b)
	return string(x) == string(y)
}

// justify: a null at path (non-null in the fault-free run) must be the nearest nullable
// ancestor of some injected fault.
func (j *judge) justify(path string) {
	for _, t := range j.troubles {
		if j.l.nearestNullable(t.path) == path {
			return
		}
		// a fault *at* a nullable position nulls exactly that position
		if t.path == path {
			return
		}
		// a wrong-kind value (not a failure) may complete to nulls anywhere below it
		if !t.explicit && strings.HasPrefix(path, t.path+"/") {
			return
		}
	}
	var ts []string
	for _, t := range j.troubles {
		ts = append(ts, t.path+"("+t.what+")->"+j.l.nearestNullable(t.path))
	}
	j.fail("position %q is null although no injected fault nulls it (faults: %v)", path, ts)
}

// justifyChange: a value differs from the fault-free run; only positions at or below a
// fault may differ.
func (j *judge) justifyChange(path, what string) {
	for _, t := range j.troubles {
		if path == t.path || strings.HasPrefix(path, t.path+"/") {
			return
		}
	}
	j.fail("position %q changed (%s) although no fault was injected at or above it", path, what)
}

func (j *judge) errors(data interface{}, errs []gqlErr) {
	if j.bad != "" {
		return
	}
	// each explicit failure: the failed field (or an ancestor) is null - never the raw
	// value - and its error is reported. Failures of deferred values (thunks) may never be
	// forced once another failure has nulled data; eager failures are always recorded.
	seen := map[string]bool{}
	for _, e := range errs {
		seen[e.path] = true
	}
	for _, t := range j.troubles {
		if !t.explicit {
			continue
		}
		segs := strings.Split(t.path, "/")
		nulled := isNil(data)
		for n := 1; n <= len(segs) && !nulled; n++ {
			v, ok := lookup(data, segs[:n])
			if !ok {
				break
			}
			nulled = isNil(v)
		}
		if !nulled {
			v, _ := lookup(data, segs)
			j.fail("the field at %q failed (%s) but its value %v is in data", t.path, t.what, v)
			return
		}
		deferred := strings.HasPrefix(t.what, "thunk")
		if deferred && !seen[t.path] {
			// a deferred failure is never forced when another fault nulled a position
			// above it first
			nulledAt := ""
			if !isNil(data) {
				for n := 1; n <= len(segs); n++ {
					if v, ok := lookup(data, segs[:n]); ok && isNil(v) {
						nulledAt = strings.Join(segs[:n], "/")
						break
					}
				}
			}
			other := false
			for _, t2 := range j.troubles {
				if t2.path == t.path {
					continue
				}
				np := j.l.nearestNullable(t2.path)
				if np == nulledAt || nulledAt == "" || strings.HasPrefix(nulledAt, np+"/") {
					other = true
				}
			}
			if other {
				continue
			}
		}
		if !seen[t.path] && !(deferred && isNil(data)) {
			j.fail("no error addresses the failed field %q (%s); error paths %v", t.path, t.what, errPaths(errs))
			return
		}
	}
	// every error is explained by a fault on its path
	for _, e := range errs {
		if !e.hasPath {
			j.fail("error without a path next to data: %q", e.msg)
			return
		}
		ok := false
		for _, t := range j.troubles {
			if e.path == t.path || strings.HasPrefix(e.path, t.path+"/") || strings.HasPrefix(t.path, e.path+"/") {
				ok = true
			}
		}
		if !ok {
			j.fail("error at %q (%s) is not caused by any injected fault", e.path, e.msg)
			return
		}
		// the data at the error's path, or at a prefix, is null
		segs := strings.Split(e.path, "/")
		nullSeen := isNil(data)
		for n := 1; n <= len(segs) && !nullSeen; n++ {
			v, ok := lookup(data, segs[:n])
			if !ok {
				break
			}
			nullSeen = isNil(v)
		}
		if !nullSeen {
			j.fail("error at %q but neither that position nor a prefix of it is null", e.path)
			return
		}
	}
}

type gqlErr struct {
	path    string
	hasPath bool
	msg     string
}

func errPaths(es []gqlErr) []string {
	var out []string
	for _, e := range es {
		out = append(out, e.path)
	}
	return out
}

// ---- driver ----

type fixture struct {
	l    lattice
	b    *bridge.Built
	h    *hooks
	base interface{}
}

func newFixture(l lattice) (*fixture, error) {
	g := l.schema()
	b, err := bridge.Build(g, bridge.Options{})
	if err != nil {
		return nil, err
	}
	h := &hooks{g: g}
	b.H = h
	f := &fixture{l: l, b: b, h: h}
	h.reset(nil)
	r := graphql.Do(graphql.Params{Schema: b.Schema, RequestString: l.query()})
	if len(r.Errors) > 0 {
		return nil, fmt.Errorf("fault-free run of %s has errors: %v", l, r.Errors)
	}
	f.base = r.Data
	return f, nil
}

func (h *hooks) reset(x *explore.X) {
	h.x = x
	h.troubles = h.troubles[:0]
	h.calls = map[string]int{}
	h.decided = map[string]int{}
	h.rtDec = map[string]int{}
}

type outcome struct {
	bad      string
	fid      string
	troubles []trouble
	result   string
}

func (f *fixture) run(x *explore.X) (out outcome) {
	f.h.reset(x)
	var r *graphql.Result
	func() {
		defer func() {
			if p := recover(); p != nil {
				out.bad = fmt.Sprintf("panic escaped graphql.Do: %v", p)
			}
		}()
		r = graphql.Do(graphql.Params{Schema: f.b.Schema, RequestString: f.l.query()})
	}()
	out.troubles = append([]trouble{}, f.h.troubles...)
	if out.bad != "" {
		return
	}
	b, err := json.Marshal(r)
	if err != nil {
		out.bad = "result is not serialisable to JSON: " + err.Error()
		return
	}
	out.result = string(b)
	var errs []gqlErr
	for _, e := range r.Errors {
		errs = append(errs, gqlErr{path: model.PathString(e.Path), hasPath: e.Path != nil, msg: e.Message})
	}
	j := &judge{l: f.l, troubles: out.troubles}
	var data interface{} = r.Data
	if isNil(data) {
		data = nil
		if len(errs) == 0 {
			j.fail("no data and no error")
		}
		// data itself null: must be the nearest nullable ancestor of a fault
		ok := false
		for _, t := range out.troubles {
			if f.l.nearestNullable(t.path) == "" {
				ok = true
			}
		}
		if !ok && j.bad == "" {
			var ts []string
			for _, t := range out.troubles {
				ts = append(ts, t.path+"("+t.what+")->"+f.l.nearestNullable(t.path))
			}
			j.fail("data is null although no injected fault propagates to the root (faults: %v)", ts)
			// known: a failure escaping through a thunk in a non-null position
		}
	} else {
		j.walk(gen.Named("Query"), data, f.base, "")
	}
	for p, n := range f.h.calls {
		if n > 1 {
			j.fail("resolver at %q invoked %d times", p, n)
		}
	}
	j.errors(data, errs)
	out.bad = j.bad
	if out.bad != "" && isNil(data) {
		// known: a failure escaping through a deferred value in a non-null position nulls
		// the whole response and drops the other errors
		for _, t := range out.troubles {
			if (strings.HasPrefix(t.what, "thunk") || t.what == "wrong-signature-func") && f.l.nearestNullable(t.path) != t.path {
				out.fid = "C04-F2"
			}
			// the same for deferred list items in non-null item positions
			if item := t.path + "/0"; t.what == "list-of-thunks" && f.l.nearestNullable(item) != item {
				out.fid = "C04-F2"
			}
		}
	}
	return
}

func lattices(reduced bool) []lattice {
	var out []lattice
	ws := []int{0, 1, 2, 3, 4, 5, 6}
	ls := []int{0, 1, 2, 3, 4}
	if reduced {
		ws = []int{0, 1, 4}
		ls = []int{1, 2}
	}
	for _, w1 := range ws {
		for _, w2 := range ws {
			for _, w3 := range ws {
				for l1 := range level1 {
					for _, lf := range ls {
						out = append(out, lattice{w1: w1, w2: w2, w3: w3, l1: l1, leaf: lf})
						if reduced && lf == ls[0] {
							out = append(out, lattice{w1: w1, w2: w2, w3: w3, l1: l1, leaf: lf, mut: true})
						}
					}
				}
			}
		}
	}
	return out
}

func run(c *core.Ctx) {
	c.R.Rule = "case = (nullability lattice: 7 wrappers on each of 3 levels x object/interface/union at level 1 x 5 leaf types, select-everything query) x placement of <= k adversarial outcomes (20 kinds) on resolver invocations and of wrong ResolveType answers; non-trivial = at least one fault below a non-null position; distinct by (lattice, choice trace)"
	c.R.Assumptions = []string{"intrinsic oracle (schema conformance of the response, nulls only at the nearest nullable ancestor of an injected fault, an error for every explicit failure, nothing else changed w.r.t. the fault-free run)", "Go toolchain"}
	type phase struct {
		reduced bool
		k       int
		// deferred: mutation lattices only, faults among the deferred kinds only (deep
		// chains of thunks below a serially executed top-level field)
		deferred bool
		// lists: only lattices whose first level is a list of nullable abstract items (a
		// second wrong answer for the same field of the same plan is not masked by the
		// first one nulling the whole list)
		lists bool
	}
	rtKinds = c.Pick(3, 4)
	phases := []phase{{false, 1, false, false}, {true, 2, false, false}, {true, 3, true, false}, {false, 2, false, true}}
	if !c.Quick() {
		phases = []phase{{false, 2, false, false}, {true, 3, false, false}, {true, 4, true, false}, {false, 3, false, true}}
	}
	c.R.Bounds["faults_on_lists_of_nullable_abstract_items"] = phases[3].k
	c.R.Bounds["deferred_only_faults_on_mutation_lattices"] = phases[2].k
	c.R.Bounds["faults_full_lattice"] = phases[0].k
	c.R.Bounds["faults_reduced_lattice"] = phases[1].k
	for _, ph := range phases {
		ls := lattices(ph.reduced)
		sel := 0
		c.R.Bounds[fmt.Sprintf("lattices_reduced=%v", ph.reduced)] = len(ls)
		for li, l := range ls {
			if ph.lists {
				if !((l.w1 == 2 || l.w1 == 3) && l.l1 != 0 && (l.w2 == 0 || l.w2 == 2) && l.w3 == 0 && l.leaf == 1) {
					continue
				}
				sel++
				if !c.Mine(sel) {
					continue
				}
			} else if !c.Mine(li) {
				continue
			}
			if c.Expired() {
				return
			}
			if ph.deferred && !l.mut {
				continue
			}
			f, err := newFixture(l)
			if err != nil {
				c.Mismatch("", "fault-free run", err.Error(), map[string]interface{}{"lattice": li, "reduced": ph.reduced, "choices": []int{}})
				continue
			}
			if ph.deferred {
				f.h.only = []int{oThunkOK, oThunkErr, oThunkNil, oListThunks}
			}
			if ph.lists {
				// resolver faults of three kinds next to every wrong type answer
				f.h.only = []int{oNil, oErr, oBadItem}
			}
			e := c.Explorer(ph.k) // lattices are sharded, not executions
			e.Shard, e.NShards, e.ShardLevel = 0, 1, 0
			e.Run(func(x *explore.X, owned bool) uint64 {
				out := f.run(x)
				dig := report.H(out.result + out.bad)
				c.R.Evaluations++
				c.R.States++
				c.R.Outcome(report.H(fmt.Sprint(li, ph.reduced) + out.result))
				for _, t := range out.troubles {
					if f.l.nearestNullable(t.path) != t.path {
						c.R.Nontriv(report.H(fmt.Sprint(li, ph.reduced, x.Trace())))
						break
					}
				}
				if c.R.WantSample() {
					c.R.Sample(map[string]interface{}{"schema": l.String(), "query": l.query(), "faults": fmt.Sprint(out.troubles), "response": out.result})
				}
				if out.bad != "" {
					c.Mismatch(out.fid, sigOf(out.bad), fmt.Sprintf("%s, faults %v: %s -- response %s", l, out.troubles, out.bad, out.result),
						map[string]interface{}{"lattice": li, "reduced": ph.reduced, "choices": x.Trace(), "deferred": ph.deferred, "lists": ph.lists, "rt": rtKinds})
				}
				return dig
			})
			c.Absorb(e)
		}
	}
}

func sigOf(s string) string {
	f := strings.Fields(s)
	for i, w := range f {
		if strings.HasPrefix(w, "\"") {
			f[i] = "_"
		}
	}
	if len(f) > 7 {
		f = f[:7]
	}
	return strings.Join(f, " ")
}

func replay(c *core.Ctx, p map[string]interface{}) (bool, string) {
	rtKinds = 3
	if v, ok := p["rt"].(float64); ok {
		rtKinds = int(v)
	}
	li := int(p["lattice"].(float64))
	reduced, _ := p["reduced"].(bool)
	var choices []int
	for _, v := range p["choices"].([]interface{}) {
		choices = append(choices, int(v.(float64)))
	}
	ls := lattices(reduced)
	if li >= len(ls) {
		return false, "unknown lattice"
	}
	f, err := newFixture(ls[li])
	if err != nil {
		return false, err.Error()
	}
	if d, _ := p["deferred"].(bool); d {
		f.h.only = []int{oThunkOK, oThunkErr, oThunkNil, oListThunks}
	}
	if d, _ := p["lists"].(bool); d {
		f.h.only = []int{oNil, oErr, oBadItem}
	}
	var out outcome
	explore.Replay(choices, 0, func(x *explore.X, owned bool) uint64 {
		out = f.run(x)
		return 0
	})
	if out.bad != "" {
		return false, fmt.Sprintf("%s, faults %v: %s -- response %s", ls[li], out.troubles, out.bad, out.result)
	}
	return true, "response is well-formed: " + out.result
}
