// Package sx is the harness side of the cooperative scheduler (DESIGN.md E3): contexts
// whose cancellation is a scheduler-visible close, the chooser that lets the explorer pick
// schedules, and the race-log watcher that attributes detector reports to schedules.
package sx

import (
	"context"
	"os"
	"path/filepath"
	"strings"
	"time"

	"github.com/graphql-go/graphql/vsched"

	"verif/explore"
)

// Ctx is a context.Context owned by the harness: Done() is closed through vsched.Close by
// a harness thread, so cancellation (or deadline expiry) is "a thread that may fire at any
// scheduling point".
type Ctx struct {
	done chan struct{}
	err  error
	vals map[interface{}]interface{}
}

func NewCtx() *Ctx { return &Ctx{done: make(chan struct{})} }

func (c *Ctx) Deadline() (time.Time, bool)     { return time.Time{}, false }
func (c *Ctx) Done() <-chan struct{}           { return c.done }
func (c *Ctx) Value(k interface{}) interface{} { return nil }

//go:norace
func (c *Ctx) Err() error { return c.err }

// Cancel closes Done with the given error (call from a scheduled harness thread).
//
//go:norace
func (c *Ctx) Cancel(err error) {
	c.err = err
	vsched.Close(c.done)
}

//go:norace
func (c *Ctx) Cancelled() bool { return c.err != nil }

var _ context.Context = (*Ctx)(nil)

// Chooser adapts the explorer to the scheduler: switching away from a runnable thread is
// a preemption (costs one deviation); every other decision is free.
func Chooser(x *explore.X) vsched.Chooser {
	return func(kind, n int, runningEnabled bool) int {
		if kind == 0 {
			if sig, ok := vsched.StateSig(); ok {
				x.Prune(sig)
			}
		}
		if kind == 0 && runningEnabled {
			return x.Dev(n, "preempt")
		}
		return x.Choose(n, "sched")
	}
}

// RaceLog watches the race detector's log files of this process.
type RaceLog struct {
	prefix string
	size   int64
}

func NewRaceLog() *RaceLog {
	r := &RaceLog{}
	for _, kv := range strings.Fields(os.Getenv("GORACE")) {
		if strings.HasPrefix(kv, "log_path=") {
			r.prefix = kv[len("log_path="):]
		}
	}
	r.size = r.total()
	return r
}

func (r *RaceLog) files() []string {
	if r.prefix == "" {
		return nil
	}
	ms, _ := filepath.Glob(r.prefix + "." + itoa(os.Getpid()))
	return ms
}

func itoa(n int) string {
	if n == 0 {
		return "0"
	}
	var b []byte
	for n > 0 {
		b = append([]byte{byte('0' + n%10)}, b...)
		n /= 10
	}
	return string(b)
}

func (r *RaceLog) total() int64 {
	var t int64
	for _, f := range r.files() {
		if st, err := os.Stat(f); err == nil {
			t += st.Size()
		}
	}
	return t
}

// New returns the text appended to the log since the last call ("" if none).
func (r *RaceLog) New() string {
	t := r.total()
	if t == r.size {
		return ""
	}
	var out strings.Builder
	var seen int64
	for _, f := range r.files() {
		b, err := os.ReadFile(f)
		if err != nil {
			continue
		}
		if seen+int64(len(b)) > r.size {
			from := r.size - seen
			if from < 0 {
				from = 0
			}
			out.Write(b[from:])
		}
		seen += int64(len(b))
	}
	r.size = t
	return out.String()
}

// Enabled tells whether the binary runs under the race detector with a log path.
func (r *RaceLog) Enabled() bool { return r.prefix != "" }

// Report is one parsed "WARNING: DATA RACE" block.
type Report struct {
	Text  string
	Funcs []string // top frame function of each access stack (two entries)
	Sites []string // file:line of those frames
}

// Parse splits detector output into reports.
func Parse(text string) []Report {
	var out []Report
	blocks := strings.Split(text, "==================")
	for _, b := range blocks {
		if !strings.Contains(b, "WARNING: DATA RACE") {
			continue
		}
		rep := Report{Text: strings.TrimSpace(b)}
		lines := strings.Split(b, "\n")
		for i, l := range lines {
			t := strings.TrimSpace(l)
			isAccess := strings.HasPrefix(t, "Read at ") || strings.HasPrefix(t, "Write at ") || strings.HasPrefix(t, "Previous read at ") || strings.HasPrefix(t, "Previous write at ") ||
				strings.HasPrefix(t, "Atomic ") || strings.HasPrefix(t, "Previous atomic ")
			if !isAccess {
				continue
			}
			// first frame below that is not in the runtime
			for j := i + 1; j+1 < len(lines); j += 2 {
				fn := strings.TrimSpace(lines[j])
				if fn == "" {
					break
				}
				if strings.HasPrefix(fn, "runtime.") || strings.HasPrefix(fn, "internal/") || strings.HasPrefix(fn, "sync.") || strings.HasPrefix(fn, "reflect.") {
					continue
				}
				if k := strings.IndexByte(fn, '('); k > 0 && !strings.HasPrefix(fn, "(") {
					// keep "pkg.(*T).Method" intact: cut only the argument list at the end
					if e := strings.LastIndex(fn, "("); e > 0 && strings.HasSuffix(fn, ")") {
						fn = fn[:e]
					}
				}
				site := strings.TrimSpace(lines[j+1])
				if k := strings.Index(site, " +0x"); k > 0 {
					site = site[:k]
				}
				rep.Funcs = append(rep.Funcs, fn)
				rep.Sites = append(rep.Sites, site)
				break
			}
		}
		out = append(out, rep)
	}
	return out
}
