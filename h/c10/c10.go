// Package c10 decides C10 (introspection describes the schema exactly): a family of
// schemas generated from the kitchen schema by a bounded number of deviations (defaults of
// every input kind, deprecations, wrapping depth, types appended after construction in
// every order) is introspected through graphql.Do and compared with M-intro, the
// description computed from the generator's own schema value.
package c10

import (
	"encoding/json"
	"fmt"
	"sort"
	"strings"

	"github.com/graphql-go/graphql"

	"verif/explore"
	"verif/h/bridge"
	"verif/h/core"
	"verif/h/gen"
	"verif/h/model"
	"verif/h/msyntax"
	"verif/report"
)

func init() { core.Register("C10", &core.Check{Run: run, Replay: replay}) }

const fullQuery = `{ __schema { queryType { name } mutationType { name } subscriptionType { name }
  directives { name locations args { name defaultValue type { ...T } } }
  types { kind name
    fields(includeDeprecated: true) { name isDeprecated deprecationReason type { ...T } args { name defaultValue type { ...T } } }
    inputFields { name defaultValue type { ...T } }
    interfaces { name } possibleTypes { name }
    enumValues(includeDeprecated: true) { name isDeprecated deprecationReason } } } }
fragment T on __Type { kind name ofType { kind name ofType { kind name ofType { kind name ofType { kind name ofType { kind name ofType { kind name ofType { kind name } } } } } } } }`

type hooks struct{}

func (hooks) Resolve(string, *gen.FieldDef, graphql.ResolveParams) (interface{}, error) {
	return nil, nil
}
func (hooks) ResolveType(string, graphql.ResolveTypeParams) string                { return "" }
func (hooks) IsTypeOf(string, graphql.IsTypeOfParams) bool                        { return true }
func (hooks) Subscribe(*gen.FieldDef, graphql.ResolveParams) (interface{}, error) { return nil, nil }

// argument slots of the extra field Query.g and their default alternatives (index 0 = none)
type slot struct {
	name string
	typ  string
	alts []string
}

var slots = []slot{
	{"e", "E", []string{"", "A", "B"}},
	{"l", "[Int]", []string{"", "[1, 2]", "[]"}},
	{"o", "In", []string{"", "{a: 1}", `{a: 1, c: B, d: {k: "q\"x"}}`}},
	{"s", "String", []string{"", `"a\"b\\"`, `""`, `"line\nbreak é"`}},
	{"fl", "Float", []string{"", "1.5", "2"}},
	{"b", "Boolean", []string{"", "false", "true"}},
	{"id", "ID", []string{"", `"x"`}},
	{"c", "Custom", []string{"", `"c:v"`}},
	{"ll", "[[E]]", []string{"", "[[A], [B]]"}},
	{"i", "Int", []string{"", "0", "-5"}},
	{"nn", "[Int!]", []string{"", "[3]"}},
	// an enum whose internal values are strings spelled like the names of OTHER values
	{"se", "SE", []string{"", "SOLID", "GAS"}},
	{"sl", "[SE]", []string{"", "[LIQUID, SOLID]"}},
}

type variant struct {
	g        *gen.Schema
	appended []string // type names added by AppendType after construction, in this order
	desc     []string
}

func litValue(s string) gen.Value {
	n, err := msyntax.ParseValueText(s)
	if err != nil {
		panic("c10: bad literal " + s + ": " + err.Error())
	}
	return n
}

func buildVariant(x *explore.X) *variant {
	g := gen.Kitchen()
	v := &variant{g: g}
	q := g.Types["Query"]
	g.Add(&gen.TypeDef{Kind: gen.KEnum, Name: "SE", Values: []*gen.EnumVal{{Name: "SOLID", Internal: "LIQUID"}, {Name: "LIQUID", Internal: "GAS"}, {Name: "GAS", Internal: "SOLID"}}})
	gf := &gen.FieldDef{Name: "g", Type: gen.Named("String")}
	for _, s := range slots {
		a := &gen.ArgDef{Name: s.name, Type: gen.ParseType(s.typ)}
		if k := x.Dev(len(s.alts), "default "+s.name); k > 0 {
			lv := litValue(s.alts[k])
			a.Default = &lv
			v.desc = append(v.desc, fmt.Sprintf("g(%s: %s = %s)", s.name, s.typ, s.alts[k]))
		}
		gf.Args = append(gf.Args, a)
	}
	q.Fields = append(q.Fields, gf)
	// input-field defaults
	if k := x.Dev(3, "In.b default"); k > 0 {
		lv := litValue([]string{"", "[1]", "[]"}[k])
		g.Types["In"].Input("b").Default = &lv
		v.desc = append(v.desc, "In.b default "+lv.Render())
	}
	if x.Flip("In.d default") {
		lv := litValue(`{k: "z"}`)
		g.Types["In"].Input("d").Default = &lv
		v.desc = append(v.desc, "In.d default {k: \"z\"}")
	}
	if x.Flip("zero-valued input defaults") {
		for _, spec := range []string{"z:Int=0", "fz:Boolean=false", `sz:String=""`, "lz:[Int]=[]"} {
			g.Types["In"].Inputs = append(g.Types["In"].Inputs, gen.A(spec))
		}
		v.desc = append(v.desc, "In gets inputs with defaults 0, false, \"\", []")
	}
	// deprecations
	if x.Flip("deprecated field") {
		g.Types["O"].Field("y").Deprecated = "use x"
		v.desc = append(v.desc, "O.y deprecated")
	}
	if x.Flip("deprecated first field") {
		g.Types["O"].Fields = append(g.Types["O"].Fields, &gen.FieldDef{Name: "aFirst", Type: gen.Named("String"), Deprecated: "sorts first"})
		v.desc = append(v.desc, "O.aFirst deprecated (sorts first)")
	}
	if x.Flip("deprecated interface field") {
		g.Types["J"].Field("y").Deprecated = "interface field going away"
		v.desc = append(v.desc, "J.y deprecated")
	}
	if x.Flip("deprecated enum value") {
		g.Types["E"].Values[1].Deprecated = "no B"
		v.desc = append(v.desc, "E.B deprecated")
	}
	// an interface nobody implements, whose field argument types occur nowhere else
	if x.Flip("lonely interface") {
		g.Add(&gen.TypeDef{Kind: gen.KEnum, Name: "LE", Values: []*gen.EnumVal{{Name: "L1", Internal: 1}}})
		g.Add(&gen.TypeDef{Kind: gen.KInput, Name: "LIn", Inputs: []*gen.ArgDef{gen.A("e:LE=L1")}})
		g.Add(&gen.TypeDef{Kind: gen.KInterface, Name: "L", Fields: []*gen.FieldDef{gen.F("lf(a:[LIn]):String")}})
		q.Fields = append(q.Fields, gen.F("lonely:L"))
		v.desc = append(v.desc, "interface L without implementers, argument types LIn / LE used only there")
	}
	// deeper wrapping
	if x.Flip("deep wrapping") {
		q.Fields = append(q.Fields, gen.F("w(a:[[Int!]!]!):[[[O!]]!]"))
		v.desc = append(v.desc, "Query.w deep wrappers")
	}
	// types appended after construction: X implements I (and refers to a new enum), Y implements I & J
	switch x.Dev(7, "append") {
	case 5:
		v.appended = []string{"UZ"} // a union whose member is a new implementer of J
	case 6:
		v.appended = []string{"W"} // a plain object whose field type is a new implementer of I
	case 1:
		v.appended = []string{"X"}
	case 2:
		v.appended = []string{"X", "Y"}
	case 3:
		v.appended = []string{"Y", "X"}
	case 4:
		v.appended = []string{"Z"} // a union member only reachable through the appended type
	}
	if len(v.appended) > 0 {
		v.desc = append(v.desc, fmt.Sprintf("AppendType %v", v.appended))
	}
	for _, n := range v.appended {
		switch n {
		case "X":
			g.Add(&gen.TypeDef{Kind: gen.KEnum, Name: "XE", Values: []*gen.EnumVal{{Name: "P", Internal: 1}, {Name: "Q", Internal: 2}}})
			g.Add(&gen.TypeDef{Kind: gen.KObject, Name: "X", Interfaces: []string{"I"}, Fields: []*gen.FieldDef{gen.F("x:String"), gen.F("xe(v:XE=Q):XE")}})
		case "Y":
			g.Add(&gen.TypeDef{Kind: gen.KObject, Name: "Y", Interfaces: []string{"I", "J"}, Fields: []*gen.FieldDef{gen.F("x:String"), gen.F("y:String")}})
		case "UZ":
			g.Add(&gen.TypeDef{Kind: gen.KObject, Name: "Z3", Interfaces: []string{"J"}, Fields: []*gen.FieldDef{gen.F("y:String")}})
			g.Add(&gen.TypeDef{Kind: gen.KUnion, Name: "UZ", Members: []string{"Z3", "O"}})
		case "W":
			g.Add(&gen.TypeDef{Kind: gen.KObject, Name: "W2", Interfaces: []string{"I"}, Fields: []*gen.FieldDef{gen.F("x:String")}})
			g.Add(&gen.TypeDef{Kind: gen.KObject, Name: "W", Fields: []*gen.FieldDef{gen.F("w2:W2")}})
		case "Z":
			g.Add(&gen.TypeDef{Kind: gen.KObject, Name: "Z2", Interfaces: []string{"J"}, Fields: []*gen.FieldDef{gen.F("y:String")}})
			g.Add(&gen.TypeDef{Kind: gen.KObject, Name: "Z", Interfaces: []string{"I"}, Fields: []*gen.FieldDef{gen.F("x:String"), gen.F("z2:Z2")}})
		}
	}
	return v
}

// construct builds the schema: everything up front except the appended types, which are
// added by AppendType in the chosen order.
func construct(v *variant) (*graphql.Schema, error) {
	late := map[string]bool{}
	for _, n := range v.appended {
		late[n] = true
		if n == "X" {
			late["XE"] = true
		}
		if n == "Z" {
			late["Z2"] = true
		}
		if n == "UZ" {
			late["Z3"] = true
		}
		if n == "W" {
			late["W2"] = true
		}
	}
	// reachable only through the arguments of an interface field: not listed in Types
	late["LIn"], late["LE"] = true, true
	var early []string
	for _, n := range v.g.Order {
		td := v.g.Types[n]
		if !late[n] && (td.Kind == gen.KObject || td.Kind == gen.KInput || td.Kind == gen.KEnum || td.Kind == gen.KScalar) {
			early = append(early, n)
		}
	}
	b, err := bridge.Build(v.g, bridge.Options{ExtraTypes: early})
	if err != nil {
		return nil, err
	}
	b.H = hooks{}
	s := b.Schema
	for _, n := range v.appended {
		if err := s.AppendType(b.Types[n]); err != nil {
			return nil, fmt.Errorf("AppendType(%s): %v", n, err)
		}
	}
	return &s, nil
}

// ---- M-intro ----

func typeRefJSON(t *gen.TypeRef, s *gen.Schema) interface{} {
	switch t.Kind {
	case gen.TNonNull:
		return map[string]interface{}{"kind": "NON_NULL", "name": nil, "ofType": typeRefJSON(t.Of, s)}
	case gen.TList:
		return map[string]interface{}{"kind": "LIST", "name": nil, "ofType": typeRefJSON(t.Of, s)}
	}
	return map[string]interface{}{"kind": kindName(s.Type(t.Name)), "name": t.Name, "ofType": nil}
}

func kindName(td *gen.TypeDef) string {
	return [...]string{"SCALAR", "OBJECT", "INTERFACE", "UNION", "ENUM", "INPUT_OBJECT"}[td.Kind]
}

// refString flattens a type reference as returned by the T fragment.
func refString(v interface{}) string {
	m, ok := v.(map[string]interface{})
	if !ok || m == nil {
		return ""
	}
	switch m["kind"] {
	case "NON_NULL":
		return refString(m["ofType"]) + "!"
	case "LIST":
		return "[" + refString(m["ofType"]) + "]"
	}
	return fmt.Sprint(m["name"])
}

type problem struct{ msg, fid string }

func compare(v *variant, data map[string]interface{}) *problem {
	g := v.g
	sch, _ := data["__schema"].(map[string]interface{})
	if sch == nil {
		return &problem{msg: "no __schema in the response"}
	}
	types := map[string]map[string]interface{}{}
	for _, t := range sch["types"].([]interface{}) {
		tm := t.(map[string]interface{})
		name := fmt.Sprint(tm["name"])
		if types[name] != nil {
			return &problem{msg: fmt.Sprintf("type %s listed twice", name)}
		}
		types[name] = tm
	}
	want := map[string]bool{"String": true, "Boolean": true, "__Schema": true, "__Type": true, "__TypeKind": true, "__Field": true, "__InputValue": true, "__EnumValue": true, "__Directive": true, "__DirectiveLocation": true}
	for n := range g.Types {
		want[n] = true
	}
	var refs func(t *gen.TypeRef)
	refs = func(t *gen.TypeRef) { want[t.Base()] = true }
	for _, td := range g.Types {
		for _, f := range td.Fields {
			refs(f.Type)
			for _, a := range f.Args {
				refs(a.Type)
			}
		}
		for _, a := range td.Inputs {
			refs(a.Type)
		}
	}
	for n := range want {
		if types[n] == nil {
			return &problem{msg: fmt.Sprintf("type %s is missing from __schema.types", n)}
		}
	}
	for n := range types {
		if !want[n] {
			return &problem{msg: fmt.Sprintf("__schema.types lists %s, which the schema does not contain", n)}
		}
	}
	roots := map[string]string{"queryType": g.Query, "mutationType": g.Mutation, "subscriptionType": g.Subscription}
	for k, n := range roots {
		got := ""
		if m, ok := sch[k].(map[string]interface{}); ok && m != nil {
			got = fmt.Sprint(m["name"])
		}
		if got != n {
			return &problem{msg: fmt.Sprintf("%s is %q, expected %q", k, got, n)}
		}
	}
	names := make([]string, 0, len(g.Types))
	for n := range g.Types {
		names = append(names, n)
	}
	sort.Strings(names)
	for _, n := range names {
		td := g.Types[n]
		tm := types[n]
		if tm["kind"] != kindName(td) {
			return &problem{msg: fmt.Sprintf("%s has kind %v, expected %s", n, tm["kind"], kindName(td))}
		}
		if td.Kind == gen.KObject || td.Kind == gen.KInterface {
			if p := compareFields(g, n, td.Fields, tm["fields"]); p != nil {
				return p
			}
		} else if tm["fields"] != nil {
			return &problem{msg: fmt.Sprintf("%s (kind %s) has fields", n, kindName(td))}
		}
		if td.Kind == gen.KObject {
			if p := compareNames(n+".interfaces", td.Interfaces, tm["interfaces"]); p != nil {
				return p
			}
		}
		if td.Kind == gen.KInterface || td.Kind == gen.KUnion {
			if p := compareNames(n+".possibleTypes", g.PossibleTypes(n), tm["possibleTypes"]); p != nil {
				if len(v.appended) > 0 {
					p.fid = "C10-F2"
				}
				return p
			}
		} else if tm["possibleTypes"] != nil {
			return &problem{msg: fmt.Sprintf("%s (kind %s) has possibleTypes", n, kindName(td))}
		}
		if td.Kind == gen.KEnum {
			var exp []string
			for _, ev := range td.Values {
				exp = append(exp, ev.Name)
			}
			if p := compareNames(n+".enumValues", exp, tm["enumValues"]); p != nil {
				return p
			}
			for _, e := range tm["enumValues"].([]interface{}) {
				em := e.(map[string]interface{})
				ev := td.EnumByName(fmt.Sprint(em["name"]))
				if (ev.Deprecated != "") != (em["isDeprecated"] == true) || (ev.Deprecated != "" && em["deprecationReason"] != ev.Deprecated) {
					return &problem{msg: fmt.Sprintf("%s.%s deprecation is (%v, %v), expected %q", n, ev.Name, em["isDeprecated"], em["deprecationReason"], ev.Deprecated)}
				}
			}
		}
		if td.Kind == gen.KInput {
			if p := compareInputs(g, n, td.Inputs, tm["inputFields"]); p != nil {
				return p
			}
		}
	}
	return nil
}

func compareNames(where string, exp []string, got interface{}) *problem {
	var gs []string
	if l, ok := got.([]interface{}); ok {
		for _, e := range l {
			gs = append(gs, fmt.Sprint(e.(map[string]interface{})["name"]))
		}
	}
	a, b := append([]string{}, exp...), append([]string{}, gs...)
	sort.Strings(a)
	sort.Strings(b)
	if strings.Join(a, ",") != strings.Join(b, ",") {
		return &problem{msg: fmt.Sprintf("%s is %v, expected %v (each once)", where, gs, exp)}
	}
	return nil
}

func compareInputs(g *gen.Schema, where string, exp []*gen.ArgDef, got interface{}) *problem {
	var names []string
	for _, a := range exp {
		names = append(names, a.Name)
	}
	if p := compareNames(where+" inputs", names, got); p != nil {
		return p
	}
	l, _ := got.([]interface{})
	for _, e := range l {
		em := e.(map[string]interface{})
		var ad *gen.ArgDef
		for _, a := range exp {
			if a.Name == em["name"] {
				ad = a
			}
		}
		if r := refString(em["type"]); r != ad.Type.String() {
			return &problem{msg: fmt.Sprintf("%s.%s has type %s, expected %s", where, ad.Name, r, ad.Type)}
		}
		if p := compareDefault(g, where+"."+ad.Name, ad, em["defaultValue"]); p != nil {
			return p
		}
	}
	return nil
}

// compareDefault: the reported default is a literal that, parsed and coerced against the
// type, gives back the configured default.
func compareDefault(g *gen.Schema, where string, ad *gen.ArgDef, got interface{}) *problem {
	if ad.Default == nil {
		if got != nil {
			return &problem{msg: fmt.Sprintf("%s reports default %v although none is configured", where, got)}
		}
		return nil
	}
	gs, ok := got.(string)
	if !ok {
		return &problem{msg: fmt.Sprintf("%s reports no default, configured %s", where, ad.Default.Render()), fid: "C10-F1"}
	}
	lit, err := msyntax.ParseValueText(gs)
	if err != nil {
		return &problem{msg: fmt.Sprintf("%s reports default %q, which is not a GraphQL literal (%v); configured %s", where, gs, err, ad.Default.Render()), fid: "C10-F1"}
	}
	if model.LiteralVerdict(g, ad.Type, lit) == model.Reject {
		return &problem{msg: fmt.Sprintf("%s reports default %q, which is not a literal of type %s; configured %s", where, gs, ad.Type, ad.Default.Render()), fid: "C10-F1"}
	}
	have := model.Canon(model.LiteralValue(g, ad.Type, lit, nil))
	wantV := model.Canon(model.LiteralValue(g, ad.Type, *ad.Default, nil))
	if have != wantV {
		return &problem{msg: fmt.Sprintf("%s reports default %q = %s, configured %s = %s", where, gs, have, ad.Default.Render(), wantV), fid: "C10-F1"}
	}
	return nil
}

func compareFields(g *gen.Schema, typeName string, exp []*gen.FieldDef, got interface{}) *problem {
	var names []string
	for _, f := range exp {
		names = append(names, f.Name)
	}
	if p := compareNames(typeName+".fields", names, got); p != nil {
		return p
	}
	for _, e := range got.([]interface{}) {
		em := e.(map[string]interface{})
		var fd *gen.FieldDef
		for _, f := range exp {
			if f.Name == em["name"] {
				fd = f
			}
		}
		where := typeName + "." + fd.Name
		if r := refString(em["type"]); r != fd.Type.String() {
			return &problem{msg: fmt.Sprintf("%s has type %s, expected %s", where, r, fd.Type)}
		}
		if (fd.Deprecated != "") != (em["isDeprecated"] == true) || (fd.Deprecated != "" && em["deprecationReason"] != fd.Deprecated) {
			return &problem{msg: fmt.Sprintf("%s deprecation is (%v, %v), expected %q", where, em["isDeprecated"], em["deprecationReason"], fd.Deprecated)}
		}
		if p := compareInputs(g, where, fd.Args, em["args"]); p != nil {
			return p
		}
	}
	return nil
}

type outcome struct {
	bad  string
	fid  string
	desc []string
}

func execute(x *explore.X) outcome {
	v := buildVariant(x)
	out := outcome{desc: v.desc}
	s, err := construct(v)
	if err != nil {
		out.bad = "a valid configuration is rejected: " + err.Error()
		return out
	}
	var r *graphql.Result
	func() {
		defer func() {
			if p := recover(); p != nil {
				out.bad = fmt.Sprintf("introspection panicked: %v", p)
			}
		}()
		r = graphql.Do(graphql.Params{Schema: *s, RequestString: fullQuery})
	}()
	if out.bad != "" {
		return out
	}
	if len(r.Errors) > 0 {
		out.bad = "introspection query failed: " + r.Errors[0].Message
		return out
	}
	// normalise through JSON
	b, _ := json.Marshal(r.Data)
	var data map[string]interface{}
	json.Unmarshal(b, &data)
	if p := compare(v, data); p != nil {
		out.bad, out.fid = p.msg, p.fid
		return out
	}
	// includeDeprecated: false hides exactly the deprecated ones; __type(name) agrees
	r2 := graphql.Do(graphql.Params{Schema: *s, RequestString: `{ o: __type(name: "O") { fields { name } all: fields(includeDeprecated: true) { name } } e: __type(name: "E") { enumValues { name } } none: __type(name: "Nope") { name } }`})
	b, _ = json.Marshal(r2.Data)
	var d2 map[string]interface{}
	json.Unmarshal(b, &d2)
	if len(r2.Errors) > 0 {
		out.bad = "__type query failed: " + r2.Errors[0].Message
		return out
	}
	var visible, all []string
	for _, f := range v.g.Types["O"].Fields {
		all = append(all, f.Name)
		if f.Deprecated == "" {
			visible = append(visible, f.Name)
		}
	}
	om := d2["o"].(map[string]interface{})
	if p := compareNames("__type(O).fields without deprecated", visible, om["fields"]); p != nil {
		out.bad = p.msg
		return out
	}
	if p := compareNames("__type(O).fields(includeDeprecated: true)", all, om["all"]); p != nil {
		out.bad = p.msg
		return out
	}
	var evs []string
	for _, ev := range v.g.Types["E"].Values {
		if ev.Deprecated == "" {
			evs = append(evs, ev.Name)
		}
	}
	if p := compareNames("__type(E).enumValues without deprecated", evs, d2["e"].(map[string]interface{})["enumValues"]); p != nil {
		out.bad = p.msg
		return out
	}
	if d2["none"] != nil {
		out.bad = "__type(name: \"Nope\") is not null"
	}
	return out
}

func run(c *core.Ctx) {
	dev := c.Pick(3, 4)
	c.R.Rule = "case = kitchen schema + <= k deviations among: a default literal for each of 13 argument kinds (enum, an enum whose internal values are spelled like the names of its other values, alone and in a list, list, input object with nested object and escaped string, strings with quotes / backslashes / newline, float from int literal, booleans incl. false, ID, custom scalar, list of lists of enums, 0 and negative ints, list of non-null), input-field defaults (list, object), deprecated field / first-sorting field / enum value, deep wrappers, types appended after construction (1 or 2, both orders, transitively reachable ones); full introspection + __type queries compared with M-intro; non-trivial = at least one deviation"
	c.R.Assumptions = []string{"M-intro: description derived from the generator's schema value; lists compared as multisets keyed by name (each once); a default value is judged by parsing the reported literal with M-syntax and coercing it with M-coerce", "Go toolchain"}
	c.R.Bounds["deviations"] = dev
	e := c.Explorer(dev)
	e.Run(func(x *explore.X, owned bool) uint64 {
		out := execute(x)
		dig := report.H(strings.Join(out.desc, ";") + out.bad)
		if !owned {
			return dig
		}
		c.R.Evaluations++
		c.R.States++
		c.R.Outcome(dig)
		if x.Devs() > 0 {
			c.R.Nontriv(report.H(fmt.Sprint(x.Trace())))
		}
		if c.R.WantSample() {
			c.R.Sample(map[string]interface{}{"schema_deviations": out.desc, "choices": x.Trace()})
		}
		if out.bad != "" {
			c.Mismatch(out.fid, sigOf(out.bad), fmt.Sprintf("schema with %v: %s", out.desc, out.bad), map[string]interface{}{"choices": x.Trace()})
		}
		return dig
	})
	c.Absorb(e)
}

func sigOf(s string) string {
	f := strings.Fields(s)
	if len(f) > 4 {
		f = f[:4]
	}
	return strings.Join(f, " ")
}

func replay(c *core.Ctx, p map[string]interface{}) (bool, string) {
	var choices []int
	for _, v := range p["choices"].([]interface{}) {
		choices = append(choices, int(v.(float64)))
	}
	var out outcome
	explore.Replay(choices, 0, func(x *explore.X, owned bool) uint64 {
		out = execute(x)
		return 0
	})
	if out.bad != "" {
		return false, fmt.Sprintf("schema with %v: %s", out.desc, out.bad)
	}
	return true, fmt.Sprintf("introspection of the schema with %v equals its description", out.desc)
}
