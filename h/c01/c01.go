// Package c01 decides C01 (execution returns what the execution algorithm prescribes) and
// hosts the shared case runner used by C20.
package c01

import (
	"fmt"
	"strings"

	"verif/explore"
	"verif/h/bridge"
	"verif/h/core"
	"verif/h/execx"
	"verif/h/gen"
	"verif/h/model"
	"verif/report"
)

func init() {
	core.Register("C01", &core.Check{Run: func(c *core.Ctx) { Run(c, false) }, Replay: func(c *core.Ctx, p map[string]interface{}) (bool, string) { return Replay(c, p, false) }})
	core.Register("C20", &core.Check{Run: func(c *core.Ctx) { Run(c, true) }, Replay: func(c *core.Ctx, p map[string]interface{}) (bool, string) { return Replay(c, p, true) }})
}

var outcomeAlphabet = []model.Outcome{model.OK, model.Nil, model.Err, model.ValErr, model.Panic, model.ThunkOK, model.ThunkErr}

type Case struct {
	Doc    *gen.Doc
	Text   string
	OpName string
	Inputs map[string]interface{}
	Skip   string // non-empty: outside the space (e.g. rejected by validation)
	RootID string
	CtxAlt bool
}

// Generate draws one case from the explorer.
func Generate(x *explore.X, f *execx.Fixture, depth, sibs int, strict bool) *Case {
	g := &gen.DocGen{S: f.G, X: x, MaxDepth: depth, MaxSibs: sibs}
	doc := g.Query()
	cs := &Case{Doc: doc, Text: doc.Render(), RootID: "$"}
	if len(doc.Ops) > 1 {
		cs.OpName = "A"
	}
	_, perr, val := f.Prepare(cs.Text)
	if perr != nil {
		cs.Skip = "PARSE: " + perr.Error()
		return cs
	}
	if !val.IsValid {
		cs.Skip = "INVALID: " + val.Errors[0].Message
		return cs
	}
	cs.Inputs = map[string]interface{}{}
	for _, vd := range doc.Ops[0].Vars {
		dom := gen.VarDomain[vd.Name]
		k := x.Choose(len(dom), "var "+vd.Name)
		if dom[k] != nil {
			cs.Inputs[vd.Name] = dom[k]
		}
	}
	if strict {
		// the prepared plan is reused across executions: vary the per-request values it
		// must not remember (root value, context)
		if x.Choose(2, "root") == 1 {
			cs.RootID = "$2"
		}
		cs.CtxAlt = x.Choose(2, "ctx") == 1
	}
	return cs
}

// Judge runs the case through every entry point and compares with M-exec.
func Judge(f *execx.Fixture, cs *Case, strict bool, entries []int) (bad string, findingID string) {
	vars, vd := model.CoerceVariables(f.G, cs.Doc.Ops[0].Vars, cs.Inputs)
	if vd != model.Accept {
		return "generator produced non-conformant variables", ""
	}
	f.W.NFrags = len(cs.Doc.Frags)
	f.SetRequest(cs.RootID, cs.CtxAlt)
	model.RootID = cs.RootID
	defer func() { model.RootID = "$" }()
	op := execx.OpNameOf(cs.Doc, cs.OpName)
	for _, entry := range entries {
		f.W.OpName = op
		obs := f.Run(entry, cs.Text, cs.OpName, cs.Inputs)
		exp := model.Execute(f.G, cs.Doc, cs.OpName, vars, f.W)
		d := execx.Compare(exp, obs, f.W, execx.CompareOpts{Calls: true, Strict: strict, Vars: model.Canon(toPlain(vars))})
		if d != "" {
			return fmt.Sprintf("%s: %s", execx.EntryNames[entry], d), classify(f, cs, vars, obs, strict)
		}
	}
	return "", ""
}

func toPlain(m map[string]interface{}) interface{} {
	if m == nil {
		return map[string]interface{}{}
	}
	return m
}

// classify attributes a mismatch to a known finding only when the model with that
// finding's defect emulation reproduces the observation exactly.
func classify(f *execx.Fixture, cs *Case, vars map[string]interface{}, obs execx.Obs, strict bool) string {
	type sub struct {
		emu model.Emu
		ids string
	}
	subsets := []sub{
		{model.Emu{VisitedAtPlan: true}, "C01-F3"},
		{model.Emu{FirstOccPred: true}, "C01-F1"},
		{model.Emu{AllOccSubs: true}, "C01-F2"},
		{model.Emu{FirstOccPred: true, AllOccSubs: true}, "C01-F1,C01-F2"},
		{model.Emu{FirstOccPred: true, VisitedAtPlan: true}, "C01-F1,C01-F3"},
		{model.Emu{AllOccSubs: true, VisitedAtPlan: true}, "C01-F2,C01-F3"},
		{model.Emu{FirstOccPred: true, AllOccSubs: true, VisitedAtPlan: true}, "C01-F1,C01-F2,C01-F3"},
	}
	try := func(emu model.Emu) bool {
		exp := model.ExecuteEmu(f.G, cs.Doc, cs.OpName, vars, f.W, emu)
		return execx.Compare(exp, obs, f.W, execx.CompareOpts{Calls: true, Strict: strict, Vars: model.Canon(toPlain(vars))}) == ""
	}
	for _, sb := range subsets {
		if try(sb.emu) {
			return sb.ids
		}
	}
	if try(model.Emu{ThunkFatal: true}) {
		return "C04-F2"
	}
	for _, sb := range subsets {
		e := sb.emu
		e.ThunkFatal = true
		if try(e) {
			return sb.ids + ",C04-F2"
		}
	}
	return ""
}

func Run(c *core.Ctx, strict bool) {
	runWith(c, strict, bridge.Options{}, c.Pick(3, 4))
	if strict && !c.Expired() {
		// the same space, one deviation shallower, on a schema whose abstract types are
		// resolved through isTypeOf (no ResolveType): isTypeOf gets value, info and context
		runWith(c, strict, bridge.Options{UseIsTypeOf: true, NoResolveType: true}, c.Pick(2, 3))
	}
}

func runWith(c *core.Ctx, strict bool, bo bridge.Options, docDev int) {
	f, err := execx.NewFixture(gen.Kitchen(), bo)
	if err != nil {
		c.R.HarnessError("fixture: %v", err)
		return
	}
	outDev := 1
	depth := c.Pick(2, 3)
	c.R.Rule = "case = (kitchen schema, generated valid document, variable assignment, resolver outcome placement); executed through Do, Execute and PlanQuery+ExecutePlan (plan reused across assignments); non-trivial = document has a fragment, a duplicated response key or a variable-driven directive; distinct by hash of (text, variables, outcome trace)"
	c.R.Assumptions = []string{"reference interpreter M-exec (verif/h/model/exec.go) follows the spec's execution algorithm", "documents are valid by construction and additionally accepted by the library's validator (invalid ones are C02's business)", "Go toolchain"}
	c.R.Bounds["document_deviations_plus_outcome_deviations"] = docDev + outDev
	c.R.Bounds["max_depth"] = depth
	c.R.Bounds["max_siblings"] = 3
	f.W.Alphabet = outcomeAlphabet
	f.W.MutateArgs = strict
	e := c.Explorer(docDev + outDev)
	e.ShardLevel = 1
	entries := []int{execx.EntryDo, execx.EntryExecute, execx.EntryPlan}
	e.Run(func(x *explore.X, owned bool) uint64 {
		f.W.X = x
		f.W.ResetAll()
		cs := Generate(x, f, depth, 3, strict)
		if cs.Skip != "" {
			x.StopExpanding()
			if owned {
				if strings.HasPrefix(cs.Skip, "PARSE") {
					c.Mismatch("", "generated document rejected by parser", fmt.Sprintf("generated document %q: %s", cs.Text, cs.Skip), map[string]interface{}{"choices": x.Trace(), "text": cs.Text})
				}
				c.R.Count("documents_rejected_by_validation", 1)
				if c.R.Counters["documents_rejected_by_validation"] <= 3 {
					c.R.Note("skipped (validator rejects): %s -- %s", cs.Text, cs.Skip)
				}
			}
			return report.H(cs.Text)
		}
		bad, fid := Judge(f, cs, strict, entries)
		dig := report.H(cs.Text + model.Canon(toPlain(cs.Inputs)) + bad + fmt.Sprint(len(f.W.Calls)))
		if !owned {
			return dig
		}
		c.R.Evaluations += uint64(len(entries))
		c.R.States++
		c.R.Outcome(dig)
		if strings.Contains(cs.Text, "...") || strings.Contains(cs.Text, "(if: $") || dupKey(cs.Doc) {
			c.R.Nontriv(report.H(fmt.Sprint(x.Trace())))
		}
		if c.R.WantSample() {
			c.R.Sample(map[string]interface{}{"query": cs.Text, "variables": cs.Inputs, "resolver_calls": len(f.W.Calls), "choices": x.Trace()})
		}
		if bad != "" {
			c.Mismatch(fid, sigOf(bad), fmt.Sprintf("query %q variables %s: %s", cs.Text, model.Canon(toPlain(cs.Inputs)), bad),
				map[string]interface{}{"choices": x.Trace(), "text": cs.Text, "depth": depth, "istypeof": bo.UseIsTypeOf})
		}
		return dig
	})
	c.Absorb(e)
}

func dupKey(d *gen.Doc) bool {
	var walk func(ss []*gen.Sel) bool
	walk = func(ss []*gen.Sel) bool {
		seen := map[string]bool{}
		for _, s := range ss {
			if s.Kind == gen.SField {
				if seen[s.Key()] {
					return true
				}
				seen[s.Key()] = true
			}
			if walk(s.Sel) {
				return true
			}
		}
		return false
	}
	for _, o := range d.Ops {
		if walk(o.Sel) {
			return true
		}
	}
	for _, f := range d.Frags {
		if walk(f.Sel) {
			return true
		}
	}
	return false
}

// sigOf keeps the first words of a mismatch as its class.
func sigOf(s string) string {
	f := strings.Fields(s)
	if len(f) > 5 {
		f = f[:5]
	}
	return strings.Join(f, " ")
}

func Replay(c *core.Ctx, p map[string]interface{}, strict bool) (bool, string) {
	var choices []int
	for _, v := range p["choices"].([]interface{}) {
		choices = append(choices, int(v.(float64)))
	}
	depth := 2
	if d, ok := p["depth"].(float64); ok {
		depth = int(d)
	}
	bo := bridge.Options{}
	if ito, _ := p["istypeof"].(bool); ito {
		bo = bridge.Options{UseIsTypeOf: true, NoResolveType: true}
	}
	f, err := execx.NewFixture(gen.Kitchen(), bo)
	if err != nil {
		return false, err.Error()
	}
	f.W.Alphabet = outcomeAlphabet
	f.W.MutateArgs = strict
	var bad, text string
	explore.Replay(choices, 0, func(x *explore.X, owned bool) uint64 {
		f.W.X = x
		f.W.ResetAll()
		cs := Generate(x, f, depth, 3, strict)
		text = cs.Text
		if cs.Skip != "" {
			bad = cs.Skip
			return 0
		}
		bad, _ = Judge(f, cs, strict, []int{execx.EntryDo, execx.EntryExecute, execx.EntryPlan})
		return 0
	})
	if bad != "" {
		return false, fmt.Sprintf("query %q: %s", text, bad)
	}
	return true, fmt.Sprintf("query %q: response and resolver calls equal the reference interpreter's", text)
}
