// Package c16 decides C16 (cancellation yields the full response or the context error) by
// exploring every interleaving, up to a preemption bound, of a caller, a gate releaser, a
// canceller and the library's execution goroutine under the cooperative scheduler, with
// the race detector active in every schedule.
package c16

import (
	"context"
	"encoding/json"
	"fmt"
	"strings"

	"github.com/graphql-go/graphql"
	"github.com/graphql-go/graphql/language/ast"
	"github.com/graphql-go/graphql/language/parser"
	"github.com/graphql-go/graphql/vsched"

	"verif/explore"
	"verif/h/core"
	"verif/h/sx"
	"verif/report"
)

func init() { core.Register("C16", &core.Check{Run: run, Replay: replay, Race: true}) }

type scenario struct {
	n       int  // resolvers
	observe bool // resolvers select on ctx.Done()
	opened  int  // gates the releaser opens (0..n)
	cancel  int  // 0 none, 1 Canceled, 2 DeadlineExceeded
	plan    bool // PlanQuery + ExecutePlan instead of Do
	coerce  bool // a variable of a custom scalar whose ParseValue waits for the first gate
}

func (s scenario) String() string {
	return fmt.Sprintf("resolvers=%d observe_ctx=%v gates_opened=%d cancel=%d entry_plan=%v gated_variable_coercion=%v", s.n, s.observe, s.opened, s.cancel, s.plan, s.coerce)
}

// gates: one per resolver plus one for the variable coercion.
func (s scenario) gates() int {
	if s.coerce {
		return s.n + 1
	}
	return s.n
}

type env struct {
	gates [4]chan struct{}
	ctx   *sx.Ctx
	res   *graphql.Result
	done  bool
	pan   interface{}
}

func buildSchema(e *env, sc scenario) (graphql.Schema, error) {
	fields := graphql.Fields{}
	for i := 0; i < sc.n; i++ {
		i := i
		gate := e.gates[i]
		if sc.coerce {
			gate = e.gates[i+1] // gate 0 belongs to the variable coercion
		}
		name := fmt.Sprintf("g%d", i+1)
		fields[name] = &graphql.Field{Type: graphql.String, Resolve: func(p graphql.ResolveParams) (interface{}, error) {
			if !sc.observe {
				vsched.Recv("gate", gate)
				return fmt.Sprintf("v%d", i+1), nil
			}
			done := p.Context.Done()
			k, t := vsched.Select("gate-or-ctx", false, vsched.CaseRecv(done), vsched.CaseRecv(gate))
			switch k {
			case 0:
				<-done
				vsched.AfterOp(t)
				return nil, p.Context.Err()
			default:
				<-gate
				vsched.AfterOp(t)
				return fmt.Sprintf("v%d", i+1), nil
			}
		}}
	}
	if sc.coerce {
		// the variable's coercion is user code too: it waits for gate 0
		gated := graphql.NewScalar(graphql.ScalarConfig{
			Name:      "Gated",
			Serialize: func(v interface{}) interface{} { return v },
			ParseValue: func(v interface{}) interface{} {
				vsched.Recv("coercion gate", e.gates[0])
				return v
			},
			ParseLiteral: func(v ast.Value) interface{} { return v.GetValue() },
		})
		fields["h"] = &graphql.Field{Type: graphql.String, Args: graphql.FieldConfigArgument{"c": &graphql.ArgumentConfig{Type: gated}},
			Resolve: func(p graphql.ResolveParams) (interface{}, error) { return fmt.Sprint("h", p.Args["c"]), nil }}
	}
	return graphql.NewSchema(graphql.SchemaConfig{Query: graphql.NewObject(graphql.ObjectConfig{Name: "Query", Fields: fields})})
}

func query(sc scenario) string {
	var fs []string
	for i := 0; i < sc.n; i++ {
		fs = append(fs, fmt.Sprintf("g%d", i+1))
	}
	if sc.coerce {
		return "query($c: Gated) {" + strings.Join(append(fs, "h(c: $c)"), " ") + "}"
	}
	return "{" + strings.Join(fs, " ") + "}"
}

type outcome struct {
	bad     string
	dig     uint64
	steps   int
	result  string
	finish  bool
	threads int
}

var cancelErrs = []error{nil, context.Canceled, context.DeadlineExceeded}

func execute(x *explore.X, sc scenario, horizon int) outcome {
	e := &env{ctx: sx.NewCtx()}
	for i := range e.gates {
		e.gates[i] = make(chan struct{})
	}
	schema, err := buildSchema(e, sc)
	if err != nil {
		return outcome{bad: "HARNESS schema: " + err.Error()}
	}
	q := query(sc)
	var vars map[string]interface{}
	if sc.coerce {
		vars = map[string]interface{}{"c": "x"}
	}
	vsched.Begin(sx.Chooser(x), horizon)
	caller := vsched.Go("caller", func() {
		defer func() {
			if r := recover(); r != nil {
				e.pan = r
			}
		}()
		if sc.plan {
			doc, _ := parser.Parse(parser.ParseParams{Source: q})
			pl, perr := graphql.PlanQuery(&schema, doc, "")
			if perr != nil {
				e.pan = perr
				return
			}
			e.res = graphql.ExecutePlan(pl, graphql.ExecuteParams{Schema: schema, Context: e.ctx, Args: vars})
		} else {
			e.res = graphql.Do(graphql.Params{Schema: schema, RequestString: q, Context: e.ctx, VariableValues: vars})
		}
		e.done = true
	})
	if sc.opened > 0 {
		vsched.Go("releaser", func() {
			for i := 0; i < sc.opened; i++ {
				vsched.Close(e.gates[i])
			}
		})
	}
	if sc.cancel > 0 {
		vsched.Go("canceller", func() { e.ctx.Cancel(cancelErrs[sc.cancel]) })
	}
	sum := vsched.End()

	var out outcome
	out.steps = sum.Steps
	out.threads = len(sum.Threads)
	callerFinished := false
	var parked []string
	for _, t := range sum.Threads {
		if t.ID == caller {
			callerFinished = t.Finished
		}
		if t.Panicked && out.bad == "" {
			out.bad = fmt.Sprintf("thread %d (%s) panicked: %v", t.ID, t.Site, t.PanicVal)
		}
		if !t.Finished {
			parked = append(parked, fmt.Sprintf("%s:%s@%s", t.Site, t.Parked, t.OpSite))
		}
	}
	out.finish = callerFinished
	if sum.Livelock && out.bad == "" {
		out.bad = "scheduling horizon exceeded (livelock?)"
	}
	if e.pan != nil && out.bad == "" {
		out.bad = fmt.Sprintf("panic escaped the entry point: %v", e.pan)
	}
	cancelled := sc.cancel > 0 // the canceller is always eventually enabled, so by End it has fired
	allOpen := sc.opened == sc.gates()
	if !callerFinished {
		if (cancelled || allOpen) && out.bad == "" {
			out.bad = fmt.Sprintf("the call never returned although cancelled=%v all_gates_open=%v (parked: %v)", cancelled, allOpen, parked)
		}
		out.result = "<blocked>"
	} else if e.done {
		b, _ := json.Marshal(e.res)
		out.result = string(b)
		if d := judge(sc, e.res, cancelled); d != "" && out.bad == "" {
			out.bad = d + " -- result " + out.result
		}
	}
	out.dig = report.H(out.result + fmt.Sprint(parked))
	return out
}

// judge: the result is either the context error alone, or a complete normal response.
func judge(sc scenario, r *graphql.Result, cancelled bool) string {
	if r == nil {
		return "nil result"
	}
	isCtxErr := func() bool {
		if r.Data != nil || len(r.Errors) != 1 {
			return false
		}
		return r.Errors[0].Message == cancelErrs[sc.cancel].Error() && r.Errors[0].Path == nil
	}
	if cancelled && isCtxErr() {
		return ""
	}
	// otherwise it must be a complete response of an execution that ran to its end
	data, ok := r.Data.(map[string]interface{})
	if !ok || data == nil {
		return "neither the context error alone nor a complete response"
	}
	errAt := map[string]int{}
	for _, e := range r.Errors {
		if len(e.Path) != 1 {
			return fmt.Sprintf("unexpected error %q without a field path next to data", e.Message)
		}
		errAt[fmt.Sprint(e.Path[0])]++
	}
	for i := 0; i < sc.n; i++ {
		k := fmt.Sprintf("g%d", i+1)
		v, present := data[k]
		if !present {
			return "partial data: key " + k + " missing"
		}
		switch {
		case v == fmt.Sprintf("v%d", i+1):
			if errAt[k] != 0 {
				return "error reported for successfully resolved field " + k
			}
		case v == nil:
			if !(sc.observe && cancelled) {
				return "field " + k + " is null although its resolver cannot fail in this scenario"
			}
			if errAt[k] != 1 {
				return fmt.Sprintf("field %s is null with %d errors (a normal response carries exactly one)", k, errAt[k])
			}
		default:
			return fmt.Sprintf("field %s has unexpected value %v", k, v)
		}
	}
	want := sc.n
	if sc.coerce {
		want++
		if data["h"] != "hx" {
			return fmt.Sprintf("field h is %v, not the value computed from the coerced variable", data["h"])
		}
		if errAt["h"] != 0 {
			return "error reported for successfully resolved field h"
		}
	}
	if len(data) != want {
		return "data has unexpected keys"
	}
	return ""
}

func scenarios(thorough bool) []scenario {
	var out []scenario
	ns := []int{1, 2}
	if thorough {
		ns = []int{1, 2, 3}
	}
	for _, n := range ns {
		for _, observe := range []bool{false, true} {
			for opened := 0; opened <= n; opened++ {
				for cancel := 0; cancel <= 2; cancel++ {
					for _, plan := range []bool{false, true} {
						if cancel == 2 && (plan || observe) {
							continue // the deadline flavour differs only in the error text
						}
						out = append(out, scenario{n, observe, opened, cancel, plan, false})
					}
				}
			}
		}
	}
	// cancellation during variable coercion: 0-1 gated resolvers after a gated coercion
	for _, n := range []int{0, 1} {
		for opened := 0; opened <= n+1; opened++ {
			for cancel := 0; cancel <= 1; cancel++ {
				for _, plan := range []bool{false, true} {
					out = append(out, scenario{n, false, opened, cancel, plan, true})
				}
			}
		}
	}
	return out
}

func run(c *core.Ctx) {
	bound := c.Pick(2, 4)
	horizon := 400
	c.R.Rule = "case = (scenario: number of gated resolvers, resolvers observing ctx or not, gates opened, cancellation kind, entry point) x every schedule of caller / releaser / canceller / library execution goroutine with <= bound preemptions; non-trivial = a cancellation is part of the scenario; distinct by hash of (scenario, schedule)"
	c.R.Assumptions = []string{"scheduling only at synchronisation operations is sound for data-race-free programs; races are reported by the detector in every explored schedule", "vsched models Go channel/select/mutex semantics", "Go race detector", "instrumenter rewrites preserve semantics"}
	c.R.Bounds["preemptions"] = bound
	c.R.Bounds["scheduling_point_horizon"] = horizon
	rl := sx.NewRaceLog()
	if rl.Enabled() {
		// race-detector pass: fewer schedules are needed (see cmd/verif: two passes)
		bound = c.Pick(1, 3)
		c.R.Bounds["race_pass_preemptions"] = bound
		delete(c.R.Bounds, "preemptions")
	}
	scs := scenarios(!c.Quick())
	c.R.Bounds["scenarios"] = len(scs)
	for si, sc := range scs {
		e := c.Explorer(bound)
		e.MaxPoints = 4000
		e.StatePruning = true
		e.Run(func(x *explore.X, owned bool) uint64 {
			out := execute(x, sc, horizon)
			raceText := rl.New()
			if !owned {
				return out.dig
			}
			c.R.Evaluations++
			c.R.States++
			c.R.Outcome(report.H(fmt.Sprint(si) + out.result))
			if sc.cancel > 0 {
				c.R.Nontriv(report.H(fmt.Sprint(si, x.Trace())))
			}
			if c.R.WantSample() {
				c.R.Sample(map[string]interface{}{"scenario": sc.String(), "schedule": x.Trace(), "result": out.result, "scheduling_points": out.steps, "threads": out.threads + 1})
			}
			if strings.HasPrefix(out.bad, "HARNESS") {
				c.R.HarnessError("%s", out.bad)
			} else if out.bad != "" {
				c.Mismatch("", sigOf(out.bad), fmt.Sprintf("%s schedule %v: %s", sc, x.Trace(), out.bad), map[string]interface{}{"scenario": si, "choices": x.Trace(), "thorough": !c.Quick()})
			}
			for _, rep := range sx.Parse(raceText) {
				c.Mismatch(RaceFinding(rep), "race "+strings.Join(rep.Funcs, " / "), fmt.Sprintf("%s schedule %v: data race between %v at %v", sc, x.Trace(), rep.Funcs, rep.Sites),
					map[string]interface{}{"scenario": si, "choices": x.Trace(), "race": rep.Text, "thorough": !c.Quick()})
			}
			return out.dig
		})
		c.Absorb(e)
		c.R.Count("executions_cut_short_by_state_pruning", e.Pruned)
		if c.Expired() {
			return
		}
	}
}

// RaceFinding maps a race report to a known finding id by its pair of access sites.
func RaceFinding(rep sx.Report) string {
	all := strings.Join(rep.Funcs, " ")
	switch {
	case strings.Contains(all, "getValueLookup") || strings.Contains(all, "getNameLookup"):
		return "C07-F1"
	case strings.Contains(all, "IsPossibleType"):
		return "C07-F2"
	}
	return ""
}

func sigOf(s string) string {
	f := strings.Fields(s)
	if len(f) > 6 {
		f = f[:6]
	}
	return strings.Join(f, " ")
}

func replay(c *core.Ctx, p map[string]interface{}) (bool, string) {
	si := int(p["scenario"].(float64))
	var choices []int
	for _, v := range p["choices"].([]interface{}) {
		choices = append(choices, int(v.(float64)))
	}
	th, _ := p["thorough"].(bool)
	scs := scenarios(th)
	if si >= len(scs) {
		return false, "unknown scenario"
	}
	rl := sx.NewRaceLog()
	var out outcome
	explore.Replay(choices, 0, func(x *explore.X, owned bool) uint64 {
		out = execute(x, scs[si], 400)
		return out.dig
	})
	if t := rl.New(); t != "" {
		return false, "data race reported:\n" + t
	}
	if out.bad != "" {
		return false, out.bad
	}
	return true, "schedule satisfies the property: " + out.result
}
