package c14

import (
	"fmt"
	"reflect"
	"strings"

	"github.com/graphql-go/graphql"
	"github.com/graphql-go/graphql/language/ast"
	"github.com/graphql-go/graphql/language/visitor"

	"verif/explore"
	"verif/h/astx"
	"verif/h/bridge"
	"verif/h/core"
	"verif/h/gen"
	"verif/report"
)

// Type tracking (the last clause of C14): VisitWithTypeInfo must report, at every callback
// of every traversal (also ones that skip subtrees), the types a plain recursive descent
// with explicit stacks derives from the schema model.

var TypePool = []string{
	`query Q($v: Int = 1, $l: [Int!], $n: [Nope]) {f(x: $v, in: {a: 1, b: [1, $v], d: {k: "s"}}) @skip(if: true) g(ln: [1, $v], ll: [[1], [$v]], lin: [{a: 1}, {a: 2, b: []}], li: $l) o {x ... on I {x} ...F ... {y} l {x}}}`,
	`{ln {o {n}} u {__typename ... on P {z}} ll {l {e}} li {x ... on O {i {x}}}} fragment F on O @include(if: false) {f(x: 2) i {x ... on O {e}}}`,
	`mutation {m3 {x} m1} subscription S {s {f(x: 1)} t}`,
	`{nope {x} o {zzz(q: [1]) f(nope: {a: 1}, x: [2])} ... on Nope {a} a @nope(x: 1) @include(if: true, zz: [3]) b {c} ...G} fragment G on Nope {a} fragment H on E {a}`,
	`{__schema {types {name kind}} __type(name: "O") {fields(includeDeprecated: true) {name}} __typename o {__typename __schema {types {name}}}}`,
	`{g(in: {a: 1, b: {zz: 1}, d: [{k: "x"}], nope: [1]}, s: [["a"]], i: {a: 1}) f(in: [{a: 1}, [{b: [2]}]])}`,
}

type tstate struct {
	s       *gen.Schema
	typ     []*gen.TypeRef
	parent  []string
	input   []*gen.TypeRef
	fdef    []*gen.FieldDef
	dir     string
	dirArgs []*gen.ArgDef
	hasDir  bool
	arg     string
}

var metaTypes = map[string]map[string]*gen.FieldDef{
	"__Schema": {"types": gen.F("types:[__Type!]!")},
	"__Type":   {"name": gen.F("name:String"), "kind": gen.F("kind:__TypeKind!"), "fields": gen.F("fields(includeDeprecated:Boolean=false):[__Field!]")},
	"__Field":  {"name": gen.F("name:String!")},
}

var tiDirectives = map[string][]*gen.ArgDef{
	"skip":       {gen.A("if:Boolean!")},
	"include":    {gen.A("if:Boolean!")},
	"deprecated": {gen.A(`reason:String="No longer supported"`)},
}

func (t *tstate) topType() *gen.TypeRef {
	if len(t.typ) == 0 {
		return nil
	}
	return t.typ[len(t.typ)-1]
}
func (t *tstate) topInput() *gen.TypeRef {
	if len(t.input) == 0 {
		return nil
	}
	return t.input[len(t.input)-1]
}
func (t *tstate) topParent() string {
	if len(t.parent) == 0 {
		return ""
	}
	return t.parent[len(t.parent)-1]
}
func (t *tstate) topField() *gen.FieldDef {
	if len(t.fdef) == 0 {
		return nil
	}
	return t.fdef[len(t.fdef)-1]
}

func (t *tstate) isComposite(n string) bool {
	if _, ok := metaTypes[n]; ok {
		return true
	}
	return t.s.Type(n) != nil && t.s.IsComposite(n)
}

func (t *tstate) lookup(parent, name string) *gen.FieldDef {
	if parent == "" {
		return nil
	}
	if parent == t.s.Query {
		switch name {
		case "__schema":
			return gen.F("__schema:__Schema!")
		case "__type":
			return gen.F("__type(name:String!):__Type")
		}
	}
	if name == "__typename" {
		return gen.F("__typename:String!")
	}
	if m, ok := metaTypes[parent]; ok {
		return m[name]
	}
	td := t.s.Type(parent)
	if td == nil || (td.Kind != gen.KObject && td.Kind != gen.KInterface) {
		return nil
	}
	return td.Field(name)
}

func (t *tstate) named(n string) *gen.TypeRef {
	if t.s.Type(n) == nil {
		switch n {
		case "Int", "Float", "String", "Boolean", "ID":
			return gen.Named(n)
		}
		if _, ok := metaTypes[n]; ok {
			return gen.Named(n)
		}
		return nil
	}
	return gen.Named(n)
}

func (t *tstate) fromAST(n ast.Type) *gen.TypeRef {
	switch n := n.(type) {
	case *ast.Named:
		return t.named(n.Name.Value)
	case *ast.List:
		if in := t.fromAST(n.Type); in != nil {
			return gen.ListOf(in)
		}
	case *ast.NonNull:
		if in := t.fromAST(n.Type); in != nil {
			return gen.NonNull(in)
		}
	}
	return nil
}

func (t *tstate) enter(node ast.Node) {
	switch n := node.(type) {
	case *ast.SelectionSet:
		p := ""
		if tt := t.topType(); tt != nil && t.isComposite(tt.Base()) {
			p = tt.Base()
		}
		t.parent = append(t.parent, p)
	case *ast.Field:
		fd := t.lookup(t.topParent(), n.Name.Value)
		t.fdef = append(t.fdef, fd)
		if fd != nil {
			t.typ = append(t.typ, fd.Type)
		} else {
			t.typ = append(t.typ, nil)
		}
	case *ast.Directive:
		t.dir, t.dirArgs, t.hasDir = "", nil, false
		if a, ok := tiDirectives[n.Name.Value]; ok {
			t.dir, t.dirArgs, t.hasDir = n.Name.Value, a, true
		}
	case *ast.OperationDefinition:
		root := t.s.Query
		switch n.Operation {
		case "mutation":
			root = t.s.Mutation
		case "subscription":
			root = t.s.Subscription
		}
		if root == "" {
			t.typ = append(t.typ, nil)
		} else {
			t.typ = append(t.typ, gen.Named(root))
		}
	case *ast.InlineFragment:
		if n.TypeCondition != nil {
			t.typ = append(t.typ, t.named(n.TypeCondition.Name.Value))
		} else {
			t.typ = append(t.typ, t.topType())
		}
	case *ast.FragmentDefinition:
		if n.TypeCondition != nil {
			t.typ = append(t.typ, t.named(n.TypeCondition.Name.Value))
		} else {
			t.typ = append(t.typ, t.topType())
		}
	case *ast.VariableDefinition:
		t.input = append(t.input, t.fromAST(n.Type))
	case *ast.Argument:
		var defs []*gen.ArgDef
		if t.hasDir {
			defs = t.dirArgs
		} else if fd := t.topField(); fd != nil {
			defs = fd.Args
		}
		t.arg = ""
		var at *gen.TypeRef
		for _, d := range defs {
			if d.Name == n.Name.Value {
				t.arg, at = d.Name, d.Type
			}
		}
		t.input = append(t.input, at)
	case *ast.ListValue:
		var it *gen.TypeRef
		if in := t.topInput(); in != nil {
			if nn := in.Nullable(); nn.Kind == gen.TList {
				it = nn.Of
			}
		}
		t.input = append(t.input, it)
	case *ast.ObjectField:
		var ft *gen.TypeRef
		if in := t.topInput(); in != nil {
			if td := t.s.Type(in.Base()); td != nil && td.Kind == gen.KInput {
				if f := td.Input(n.Name.Value); f != nil {
					ft = f.Type
				}
			}
		}
		t.input = append(t.input, ft)
	}
}

func (t *tstate) leave(node ast.Node) {
	switch node.(type) {
	case *ast.SelectionSet:
		t.parent = t.parent[:len(t.parent)-1]
	case *ast.Field:
		t.fdef = t.fdef[:len(t.fdef)-1]
		t.typ = t.typ[:len(t.typ)-1]
	case *ast.Directive:
		t.dir, t.dirArgs, t.hasDir = "", nil, false
	case *ast.OperationDefinition, *ast.InlineFragment, *ast.FragmentDefinition:
		t.typ = t.typ[:len(t.typ)-1]
	case *ast.VariableDefinition:
		t.input = t.input[:len(t.input)-1]
	case *ast.Argument:
		t.arg = ""
		t.input = t.input[:len(t.input)-1]
	case *ast.ListValue, *ast.ObjectField:
		t.input = t.input[:len(t.input)-1]
	}
}

func refStr(r *gen.TypeRef) string {
	if r == nil {
		return "-"
	}
	return r.String()
}

func (t *tstate) tuple() string {
	p := t.topParent()
	if p == "" {
		p = "-"
	}
	f := "-"
	if fd := t.topField(); fd != nil {
		f = fd.Name
	}
	d, a := "-", "-"
	if t.hasDir {
		d = t.dir
	}
	if t.arg != "" {
		a = t.arg
	}
	return fmt.Sprintf("type=%s parent=%s input=%s field=%s directive=%s argument=%s", refStr(t.topType()), p, refStr(t.topInput()), f, d, a)
}

func libStr(v interface{}) string {
	if v == nil {
		return "-"
	}
	rv := reflect.ValueOf(v)
	if rv.Kind() == reflect.Ptr && rv.IsNil() {
		return "-"
	}
	return fmt.Sprint(v)
}

func libTuple(ti *graphql.TypeInfo) string {
	f, d, a := "-", "-", "-"
	if fd := ti.FieldDef(); fd != nil {
		f = fd.Name
	}
	if dd := ti.Directive(); dd != nil {
		d = dd.Name
	}
	if ad := ti.Argument(); ad != nil {
		a = ad.Name()
	}
	return fmt.Sprintf("type=%s parent=%s input=%s field=%s directive=%s argument=%s", libStr(ti.Type()), libStr(ti.ParentType()), libStr(ti.InputType()), f, d, a)
}

type tevent struct {
	leave bool
	node  ast.Node
	tuple string
}

func (e tevent) String() string {
	ph := "enter"
	if e.leave {
		ph = "leave"
	}
	pos := -1
	if l := e.node.GetLoc(); l != nil {
		pos = l.Start
	}
	return fmt.Sprintf("%s %s@%d {%s}", ph, e.node.GetKind(), pos, e.tuple)
}

// tiExpected: reference descent; skip decisions are consumed at enter events in order.
func tiExpected(s *gen.Schema, root ast.Node, skipAt map[int]bool) []tevent {
	t := &tstate{s: s}
	var evs []tevent
	enters := 0
	var walk func(n ast.Node)
	walk = func(n ast.Node) {
		t.enter(n)
		evs = append(evs, tevent{false, n, t.tuple()})
		k := enters
		enters++
		if skipAt[k] {
			t.leave(n) // a skipped node is left at once, its subtree never entered
			return
		}
		for _, c := range astx.Children(n) {
			if c.Node != nil {
				walk(c.Node)
				continue
			}
			for _, e := range c.List {
				if e == nil || reflect.ValueOf(e).IsNil() {
					continue
				}
				walk(e)
			}
		}
		evs = append(evs, tevent{true, n, t.tuple()})
		t.leave(n)
	}
	walk(root)
	return evs
}

func tiObserved(schema *graphql.Schema, root ast.Node, decide func(k int) bool) (evs []tevent, bad string) {
	ti := graphql.NewTypeInfo(&graphql.TypeInfoConfig{Schema: schema})
	enters := 0
	opts := visitor.VisitWithTypeInfo(ti, &visitor.VisitorOptions{
		Enter: func(p visitor.VisitFuncParams) (string, interface{}) {
			n, _ := p.Node.(ast.Node)
			evs = append(evs, tevent{false, n, libTuple(ti)})
			k := enters
			enters++
			if decide(k) {
				return visitor.ActionSkip, nil
			}
			return visitor.ActionNoChange, nil
		},
		Leave: func(p visitor.VisitFuncParams) (string, interface{}) {
			n, _ := p.Node.(ast.Node)
			evs = append(evs, tevent{true, n, libTuple(ti)})
			return visitor.ActionNoChange, nil
		},
	})
	defer func() {
		if r := recover(); r != nil {
			bad = fmt.Sprintf("panic: %v", r)
		}
	}()
	visitor.Visit(root, opts, nil)
	return evs, ""
}

func tiDiff(exp, obs []tevent) string {
	for i := 0; i < len(exp) || i < len(obs); i++ {
		switch {
		case i >= len(obs):
			return fmt.Sprintf("event %d missing: expected %v", i, exp[i])
		case i >= len(exp):
			return fmt.Sprintf("event %d unexpected: %v", i, obs[i])
		case exp[i].leave != obs[i].leave || !sameNode(exp[i].node, obs[i].node):
			return fmt.Sprintf("event %d differs: expected %v, observed %v", i, exp[i], obs[i])
		case exp[i].tuple != obs[i].tuple:
			return fmt.Sprintf("at event %d (%v) type tracking reports {%s}", i, exp[i], obs[i].tuple)
		}
	}
	return ""
}

func tiExecute(x *explore.X, g *gen.Schema, schema *graphql.Schema, doc *ast.Document) (bad string, dig uint64, skips int, nev int) {
	skipAt := map[int]bool{}
	obs, bad := tiObserved(schema, doc, func(k int) bool {
		if x.Dev(2, "skip") == 1 {
			skipAt[k] = true
			return true
		}
		return false
	})
	if bad == "" {
		bad = tiDiff(tiExpected(g, doc, skipAt), obs)
	}
	var b strings.Builder
	for _, e := range obs {
		b.WriteString(e.tuple)
	}
	return bad, report.H(b.String()), len(skipAt), len(obs)
}

func runTypeInfo(c *core.Ctx) {
	g := gen.KitchenArgs()
	b, err := bridge.Build(g, bridge.Options{})
	if err != nil {
		c.R.HarnessError("typeinfo schema: %v", err)
		return
	}
	maxSkips := c.Pick(2, 3)
	c.R.Bounds["typeinfo_documents"] = len(TypePool)
	c.R.Bounds["typeinfo_max_skips"] = maxSkips
	for di, text := range TypePool {
		doc, err := parse(text)
		if err != nil {
			c.R.HarnessError("typeinfo pool document %d does not parse: %v", di, err)
			return
		}
		e := c.Explorer(maxSkips)
		e.Run(func(x *explore.X, owned bool) uint64 {
			bad, dig, skips, nev := tiExecute(x, g, &b.Schema, doc)
			if !owned {
				return dig
			}
			c.R.Evaluations++
			c.R.States++
			c.R.Outcome(dig)
			c.R.Count("typeinfo_traversals", 1)
			if skips > 0 {
				c.R.Nontriv(report.H(fmt.Sprint("ti", di, x.Trace())))
			}
			if c.R.WantSample() {
				c.R.Sample(map[string]interface{}{"document": text, "form": "type tracking", "choices": x.Trace(), "events": nev})
			}
			if bad != "" {
				c.Mismatch("", "typeinfo|"+firstWords(bad, 4), fmt.Sprintf("doc %q with type tracking, %d skipped nodes: %s", text, skips, bad),
					map[string]interface{}{"typeinfo": true, "doc": di, "text": text, "choices": x.Trace()})
			}
			return dig
		})
		c.Absorb(e)
		if c.Expired() {
			return
		}
	}
}

func replayTypeInfo(p map[string]interface{}) (bool, string) {
	g := gen.KitchenArgs()
	b, err := bridge.Build(g, bridge.Options{})
	if err != nil {
		return false, err.Error()
	}
	text, _ := p["text"].(string)
	doc, err := parse(text)
	if err != nil {
		return false, err.Error()
	}
	var choices []int
	for _, v := range p["choices"].([]interface{}) {
		choices = append(choices, int(v.(float64)))
	}
	var bad string
	explore.Replay(choices, 0, func(x *explore.X, owned bool) uint64 {
		bad, _, _, _ = tiExecute(x, g, &b.Schema, doc)
		return 0
	})
	if bad != "" {
		return false, fmt.Sprintf("doc %q: %s", text, bad)
	}
	return true, fmt.Sprintf("doc %q: type tracking agrees with the reference descent at every callback", text)
}
