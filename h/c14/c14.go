// Package c14 decides property C14 (AST traversal) by enumerating, for every document of a
// pool and every visitor form, all policies with a bounded number of non-continue actions
// placed at every (node, phase) the traversal reaches, and comparing the callback sequence
// of the real visitor with a plain recursive reference walk (M-visit).
package c14

import (
	"fmt"
	"reflect"
	"strings"

	"github.com/graphql-go/graphql/language/ast"
	"github.com/graphql-go/graphql/language/kinds"
	"github.com/graphql-go/graphql/language/parser"
	"github.com/graphql-go/graphql/language/source"
	"github.com/graphql-go/graphql/language/visitor"

	"verif/explore"
	"verif/h/astx"
	"verif/h/core"
	"verif/report"
)

func init() { core.Register("C14", &core.Check{Run: run, Replay: replay}) }

// Pool of documents: every node kind of the executable and type-system language occurs,
// lists of length 0, 1 and 2, nesting of values and types, nil optional children.
var Pool = []string{
	`{a}`,
	`{a b}`,
	`query Q($v:Int=1,$w:[E!]){x:a(p:$v,q:[1,{k:"s"}])@d(i:true){b ...F ...on T@e{c}}} fragment F on T{d}`,
	`mutation M{m(i:{a:1.5,b:E,c:[]})} subscription{s}`,
	`{a{b{c{d}}}}`,
	`fragment A on T @x {...B} fragment B on T {...A u:v}`,
	`schema @s {query:Q mutation:M} scalar S @d`,
	`"desc" type T implements I & J @d {"fd" f(a:Int=1 @x, b:[S!]!):T! @dep g:Int}`,
	`interface I @i {f:Int} union U @u = A | B enum E @e {A @a B} input In @n {a:Int=2 @k b:[In]}`,
	`extend type T @o {f:Int} directive @d(a:Int) on FIELD | QUERY type Empty {}`,
}

var allKinds = []string{
	kinds.Name, kinds.Document, kinds.OperationDefinition, kinds.VariableDefinition, kinds.Variable, kinds.SelectionSet,
	kinds.Field, kinds.Argument, kinds.FragmentSpread, kinds.InlineFragment, kinds.FragmentDefinition, kinds.IntValue,
	kinds.FloatValue, kinds.StringValue, kinds.BooleanValue, kinds.EnumValue, kinds.ListValue, kinds.ObjectValue,
	kinds.ObjectField, kinds.Directive, kinds.Named, kinds.List, kinds.NonNull, kinds.SchemaDefinition,
	kinds.OperationTypeDefinition, kinds.ScalarDefinition, kinds.ObjectDefinition, kinds.FieldDefinition,
	kinds.InputValueDefinition, kinds.InterfaceDefinition, kinds.UnionDefinition, kinds.EnumDefinition,
	kinds.EnumValueDefinition, kinds.InputObjectDefinition, kinds.TypeExtensionDefinition, kinds.DirectiveDefinition,
}

const (
	actContinue = 0
	actSkip     = 1
	actBreak    = 2
)

var actNames = []string{visitor.ActionNoChange, visitor.ActionSkip, visitor.ActionBreak}

type event struct {
	leave     bool
	node      ast.Node
	key       interface{}
	parent    ast.Node
	path      []interface{}
	ancestors []ast.Node
}

func (e event) String() string {
	ph := "enter"
	if e.leave {
		ph = "leave"
	}
	k := "?"
	s := -1
	if e.node != nil && !reflect.ValueOf(e.node).IsNil() {
		k = e.node.GetKind()
		if l := e.node.GetLoc(); l != nil {
			s = l.Start
		}
	}
	pk := "nil"
	if e.parent != nil && !reflect.ValueOf(e.parent).IsNil() {
		pk = e.parent.GetKind()
	}
	var anc []string
	for _, a := range e.ancestors {
		if a == nil || reflect.ValueOf(a).IsNil() {
			anc = append(anc, "-")
		} else {
			anc = append(anc, a.GetKind())
		}
	}
	if e.leave {
		return fmt.Sprintf("%s %s@%d key=%v parent=%s anc=%v", ph, k, s, e.key, pk, anc)
	}
	return fmt.Sprintf("%s %s@%d key=%v parent=%s path=%v anc=%v", ph, k, s, e.key, pk, e.path, anc)
}

func sameNode(a, b ast.Node) bool {
	an := a == nil || reflect.ValueOf(a).IsNil()
	bn := b == nil || reflect.ValueOf(b).IsNil()
	if an || bn {
		return an && bn
	}
	return a == b
}

func sameEvent(a, b event) bool {
	if a.leave != b.leave || !sameNode(a.node, b.node) || !sameNode(a.parent, b.parent) || !reflect.DeepEqual(a.key, b.key) {
		return false
	}
	if len(a.ancestors) != len(b.ancestors) {
		return false
	}
	for i := range a.ancestors {
		if !sameNode(a.ancestors[i], b.ancestors[i]) {
			return false
		}
	}
	if !a.leave {
		if len(a.path) != len(b.path) {
			return false
		}
		for i := range a.path {
			if !reflect.DeepEqual(a.path[i], b.path[i]) {
				return false
			}
		}
	}
	return true
}

// one logical visitor: its observed events and the decisions it took
type vis struct {
	events    []event
	decisions []int
	decoyHits int
	x         *explore.X
	id        int
}

func (v *vis) cb(leave bool) visitor.VisitFunc {
	return func(p visitor.VisitFuncParams) (string, interface{}) {
		n, _ := p.Node.(ast.Node)
		ev := event{leave: leave, node: n, key: p.Key, parent: p.Parent}
		ev.path = append([]interface{}{}, p.Path...)
		ev.ancestors = append([]ast.Node{}, p.Ancestors...)
		v.events = append(v.events, ev)
		a := v.x.Dev(3, "action")
		v.decisions = append(v.decisions, a)
		return actNames[a], nil
	}
}

func (v *vis) decoy() visitor.VisitFunc {
	return func(p visitor.VisitFuncParams) (string, interface{}) {
		v.decoyHits++
		return visitor.ActionNoChange, nil
	}
}

// forms of registering the same logical visitor
const nForms = 8

var formNames = []string{"generic", "kind-enter-leave", "kind-func+leave", "enter/leave-kind-maps", "generic-over-kindmaps", "kindfuncmap-over-generic", "sparse-kindfuncmap", "sparse-enter/leave-kind-maps"}

func (v *vis) options(form int) *visitor.VisitorOptions {
	o := &visitor.VisitorOptions{}
	switch form {
	case 0:
		o.Enter, o.Leave = v.cb(false), v.cb(true)
	case 1:
		o.KindFuncMap = map[string]visitor.NamedVisitFuncs{}
		for _, k := range allKinds {
			o.KindFuncMap[k] = visitor.NamedVisitFuncs{Enter: v.cb(false), Leave: v.cb(true)}
		}
	case 2:
		o.KindFuncMap = map[string]visitor.NamedVisitFuncs{}
		for _, k := range allKinds {
			// Kind takes precedence over Enter
			o.KindFuncMap[k] = visitor.NamedVisitFuncs{Kind: v.cb(false), Enter: v.decoy(), Leave: v.cb(true)}
		}
	case 3:
		o.EnterKindMap, o.LeaveKindMap = map[string]visitor.VisitFunc{}, map[string]visitor.VisitFunc{}
		for _, k := range allKinds {
			o.EnterKindMap[k], o.LeaveKindMap[k] = v.cb(false), v.cb(true)
		}
	case 4:
		// generic functions take precedence over the kind maps
		o.Enter, o.Leave = v.cb(false), v.cb(true)
		o.EnterKindMap, o.LeaveKindMap = map[string]visitor.VisitFunc{}, map[string]visitor.VisitFunc{}
		for _, k := range allKinds {
			o.EnterKindMap[k], o.LeaveKindMap[k] = v.decoy(), v.decoy()
		}
	case 5:
		// named functions take precedence over generic ones, for the kinds they name
		o.KindFuncMap = map[string]visitor.NamedVisitFuncs{}
		for i, k := range allKinds {
			if i%2 == 0 {
				o.KindFuncMap[k] = visitor.NamedVisitFuncs{Enter: v.cb(false), Leave: v.cb(true)}
			}
		}
		gen := &vis{x: v.x}
		_ = gen
		// the generic pair handles exactly the other kinds; a generic call for a named kind is a decoy hit
		named := map[string]bool{}
		for i, k := range allKinds {
			if i%2 == 0 {
				named[k] = true
			}
		}
		mk := func(leave bool) visitor.VisitFunc {
			real := v.cb(leave)
			return func(p visitor.VisitFuncParams) (string, interface{}) {
				if n, ok := p.Node.(ast.Node); ok && named[n.GetKind()] {
					v.decoyHits++
					return visitor.ActionNoChange, nil
				}
				return real(p)
			}
		}
		o.Enter, o.Leave = mk(false), mk(true)
	case 6:
		// functions for some kinds only, nothing for the others
		o.KindFuncMap = map[string]visitor.NamedVisitFuncs{}
		for k := range sparseKinds(6) {
			o.KindFuncMap[k] = visitor.NamedVisitFuncs{Enter: v.cb(false), Leave: v.cb(true)}
		}
	case 7:
		o.EnterKindMap, o.LeaveKindMap = map[string]visitor.VisitFunc{}, map[string]visitor.VisitFunc{}
		for k := range sparseKinds(7) {
			o.EnterKindMap[k], o.LeaveKindMap[k] = v.cb(false), v.cb(true)
		}
	}
	return o
}

// sparseKinds: the kinds a sparse form registers functions for (nil = every kind).
func sparseKinds(form int) map[string]bool {
	var out map[string]bool
	switch form {
	case 6:
		out = map[string]bool{}
		for i, k := range allKinds {
			if i%2 == 1 {
				out[k] = true
			}
		}
	case 7:
		out = map[string]bool{}
		for i, k := range allKinds {
			if i%3 == 0 {
				out[k] = true
			}
		}
	}
	return out
}

// ---- M-visit: the reference walk ----

type model struct {
	decisions []int
	events    []event
	broke     bool
	// reg: the kinds the visitor has functions for (nil = all); other nodes are walked
	// without a callback
	reg map[string]bool
}

func (m *model) decide() int {
	i := len(m.events) - 1
	if i < len(m.decisions) {
		return m.decisions[i]
	}
	return actContinue
}

func (m *model) walk(n ast.Node, key interface{}, parent ast.Node, path []interface{}, anc []ast.Node) {
	if m.broke {
		return
	}
	called := m.reg == nil || m.reg[n.GetKind()]
	if called {
		m.events = append(m.events, event{node: n, key: key, parent: parent, path: append([]interface{}{}, path...), ancestors: append([]ast.Node{}, anc...)})
		switch m.decide() {
		case actBreak:
			m.broke = true
			return
		case actSkip:
			return
		}
	}
	childAnc := append(append([]ast.Node{}, anc...), parent)
	for _, c := range astx.Children(n) {
		if m.broke {
			return
		}
		if c.Node != nil {
			m.walk(c.Node, c.Key, n, append(append([]interface{}{}, path...), c.Key), childAnc)
			continue
		}
		elemAnc := append(append([]ast.Node{}, childAnc...), n)
		for i, e := range c.List {
			if m.broke {
				return
			}
			if e == nil || reflect.ValueOf(e).IsNil() {
				continue
			}
			m.walk(e, i, nil, append(append([]interface{}{}, path...), c.Key, i), elemAnc)
		}
	}
	if m.broke {
		return
	}
	if !called {
		return
	}
	m.events = append(m.events, event{leave: true, node: n, key: key, parent: parent, ancestors: append([]ast.Node{}, anc...)})
	if m.decide() == actBreak {
		m.broke = true
	}
}

func expected(root ast.Node, decisions []int, reg map[string]bool) []event {
	m := &model{decisions: decisions, reg: reg}
	m.walk(root, nil, nil, nil, nil)
	return m.events
}

func diff(exp, obs []event) string {
	for i := 0; i < len(exp) || i < len(obs); i++ {
		switch {
		case i >= len(obs):
			return fmt.Sprintf("event %d missing: expected %v (observed %d events, expected %d)", i, exp[i], len(obs), len(exp))
		case i >= len(exp):
			return fmt.Sprintf("event %d unexpected: %v (observed %d events, expected %d)", i, obs[i], len(obs), len(exp))
		case !sameEvent(exp[i], obs[i]):
			return fmt.Sprintf("event %d differs: expected %v, observed %v", i, exp[i], obs[i])
		}
	}
	return ""
}

// ---- driver ----

type mode struct {
	name  string
	forms []int // one per logical visitor; len > 1 = VisitInParallel
}

func modes(thorough bool) []mode {
	var ms []mode
	for f := 0; f < nForms; f++ {
		ms = append(ms, mode{formNames[f], []int{f}})
	}
	ms = append(ms, mode{"parallel(generic,generic)", []int{0, 0}})
	ms = append(ms, mode{"parallel(kind,maps)", []int{1, 3}})
	ms = append(ms, mode{"parallel(1)", []int{0}})
	ms = append(ms, mode{"parallel(sparse,sparse-maps)", []int{6, 7}})
	if thorough {
		ms = append(ms, mode{"parallel(generic,kindfunc,maps)", []int{0, 2, 3}})
	}
	return ms
}

func parse(text string) (*ast.Document, error) {
	return parser.Parse(parser.ParseParams{Source: source.NewSource(&source.Source{Body: []byte(text), Name: "c14"})})
}

type outcome struct {
	bad  string
	dig  uint64
	nev  int
	acts int
}

func execute(x *explore.X, doc *ast.Document, md mode) outcome {
	vs := make([]*vis, len(md.forms))
	opts := make([]*visitor.VisitorOptions, len(md.forms))
	for i, f := range md.forms {
		vs[i] = &vis{x: x, id: i}
		opts[i] = vs[i].options(f)
	}
	var top *visitor.VisitorOptions
	if len(md.forms) == 1 && !strings.HasPrefix(md.name, "parallel") {
		top = opts[0]
	} else {
		top = visitor.VisitInParallel(opts...)
	}
	var pan interface{}
	func() {
		defer func() { pan = recover() }()
		visitor.Visit(doc, top, nil)
	}()
	var out outcome
	if pan != nil {
		out.bad = fmt.Sprintf("Visit panicked: %v", pan)
		return out
	}
	h := uint64(14695981039346656037)
	for i, v := range vs {
		exp := expected(doc, v.decisions, sparseKinds(md.forms[i]))
		if d := diff(exp, v.events); d != "" && out.bad == "" {
			out.bad = fmt.Sprintf("visitor %d (%s): %s", i, formNames[md.forms[i]], d)
		}
		if v.decoyHits > 0 && out.bad == "" {
			out.bad = fmt.Sprintf("visitor %d (%s): a lower-precedence visit function was called %d times", i, formNames[md.forms[i]], v.decoyHits)
		}
		out.nev += len(v.events)
		for _, e := range v.events {
			h = (h ^ report.H(e.String())) * 1099511628211
		}
		for _, d := range v.decisions {
			if d != 0 {
				out.acts++
			}
			h = (h ^ uint64(d+1)) * 1099511628211
		}
	}
	out.dig = h
	return out
}

func run(c *core.Ctx) {
	runVisitor(c)
	if !c.Expired() {
		runTypeInfo(c)
	}
}

func runVisitor(c *core.Ctx) {
	maxDev := c.Pick(2, 3)
	c.R.Rule = "case = (document of the pool, visitor form or parallel combination, placement of <= bound skip/break actions at callback events); non-trivial = at least one skip/break or a non-generic form; distinct by hash of (document, form, choice trace)"
	c.R.Assumptions = []string{"the library parser builds the pool's ASTs (checked by C03)", "children of a node = its node-valued struct fields except Description, in source order (astx.Children)", "Go toolchain"}
	c.R.Bounds["max_non_continue_actions"] = maxDev
	c.R.Bounds["documents"] = len(Pool)
	ms := modes(!c.Quick())
	c.R.Bounds["visitor_forms"] = len(ms)
	for di, text := range Pool {
		doc, err := parse(text)
		if err != nil {
			c.R.HarnessError("pool document %d does not parse: %v", di, err)
			return
		}
		pristine := astx.Dump(doc, true)
		nodes := astx.Count(doc)
		for mi, md := range ms {
			dev := maxDev
			if len(md.forms) >= 3 || nodes > 30 {
				dev = maxDev - 1
			}
			e := c.Explorer(dev)
			n := 0
			var lastTrace []int
			// the tree is shared by all executions of this run, so damage persists: comparing
			// the deep dump every 32 executions (and at the end) detects any modification
			checkTree := func() {
				if astx.Dump(doc, true) != pristine {
					c.Mismatch("", md.name+"|tree modified", fmt.Sprintf("doc %q form %s: a traversal without edits modified the tree (within the 32 executions before choices %v)", text, md.name, lastTrace),
						map[string]interface{}{"doc": di, "text": text, "mode": mi, "choices": lastTrace, "tree": true})
					doc, _ = parse(text)
					pristine = astx.Dump(doc, true)
				}
			}
			e.Run(func(x *explore.X, owned bool) uint64 {
				n++
				if n%32 == 0 {
					checkTree()
				}
				out := execute(x, doc, md)
				lastTrace = x.Trace()
				if !owned {
					return out.dig
				}
				c.R.Evaluations++
				c.R.States++
				c.R.Outcome(out.dig)
				if out.acts > 0 || mi > 0 {
					c.R.Nontriv(report.H(fmt.Sprint(di, mi, x.Trace())))
				}
				if c.R.WantSample() {
					c.R.Sample(map[string]interface{}{"document": text, "form": md.name, "choices": x.Trace(), "events": out.nev})
				}
				if out.bad != "" {
					c.Mismatch("", fmt.Sprintf("%s|%s", md.name, firstWords(out.bad, 6)), fmt.Sprintf("doc %q form %s: %s", text, md.name, out.bad),
						map[string]interface{}{"doc": di, "text": text, "mode": mi, "choices": x.Trace()})
				}
				return out.dig
			})
			checkTree()
			c.Absorb(e)
			if c.Expired() {
				return
			}
		}
	}
}

func mustParse(text string) *ast.Document {
	d, _ := parse(text)
	return d
}

func firstWords(s string, n int) string {
	f := strings.Fields(s)
	if len(f) > n {
		f = f[:n]
	}
	return strings.Join(f, " ")
}

func replay(c *core.Ctx, p map[string]interface{}) (bool, string) {
	if ti, _ := p["typeinfo"].(bool); ti {
		return replayTypeInfo(p)
	}
	text, _ := p["text"].(string)
	mi := int(p["mode"].(float64))
	var choices []int
	for _, v := range p["choices"].([]interface{}) {
		choices = append(choices, int(v.(float64)))
	}
	doc, err := parse(text)
	if err != nil {
		return false, "document does not parse: " + err.Error()
	}
	ms := modes(true)
	var out outcome
	explore.Replay(choices, 0, func(x *explore.X, owned bool) uint64 {
		out = execute(x, doc, ms[mi])
		return out.dig
	})
	if out.bad == "" && astx.Dump(doc, true) != astx.Dump(mustParse(text), true) {
		out.bad = "traversal without edits modified the tree"
	}
	if out.bad != "" {
		return false, out.bad
	}
	return true, "callback sequence equals the reference walk"
}
