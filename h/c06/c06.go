// Package c06 decides C06 (prepared plans and the plan cache are semantically transparent)
// by explicit-state breadth-first search over histories of cache operations on real
// PlanCache values: a state is the private state of a cache (dump hook) reached by
// replaying its shortest history on a fresh instance; every transition is judged by
// comparing the response obtained through the cache with parsing, validating and executing
// the same request from scratch.
package c06

import (
	"encoding/json"
	"fmt"
	"sort"
	"strings"

	"github.com/graphql-go/graphql"

	"verif/h/bridge"
	"verif/h/core"
	"verif/h/execx"
	"verif/h/gen"
	"verif/h/model"
	"verif/report"
)

func init() { core.Register("C06", &core.Check{Run: run, Replay: replay}) }

func schemaG() *gen.Schema {
	s := gen.Kitchen()
	s.Add(&gen.TypeDef{Kind: gen.KInput, Name: "In3", Inputs: []*gen.ArgDef{gen.A("k:String"), gen.A("l:String"), gen.A("n:Int")}})
	q := s.Types["Query"]
	q.Fields = append(q.Fields, gen.F("g(o:In3,s:String,fl:Float):String"), gen.F("r(q:Int!,l:[Int]):String"), gen.F("h(ls:[String]):String"))
	return s
}

type req struct {
	q    string
	op   string
	vars []map[string]interface{}
}

var none = []map[string]interface{}{nil}

// The pool: built in colliding pairs (what differs is in the comment).
var pool = []req{
	{q: `{ f(x: 1) }`, vars: none},             // 0 one literal ...
	{q: `{ f(x: 2) }`, vars: none},             // 1 ... differs
	{q: `{ a @skip(if: true) b }`, vars: none}, // 2 a directive ...
	{q: `{ a b }`, vars: none},                 // 3 ... is absent
	{q: `query($x: Int = 1) { f(x: $x) }`, vars: []map[string]interface{}{nil, {"x": 5}}}, // 4 default value ...
	{q: `query($x: Int = 2) { f(x: $x) }`, vars: []map[string]interface{}{nil, {"x": 5}}}, // 5 ... differs
	{q: `{ k: f(x: 1) }`, vars: none},      // 6 alias (vs 0)
	{q: `{ f(x: 1, y: A) }`, vars: none},   // 7 enum literal, argument order ...
	{q: `{ f(y: A, x: 1) }`, vars: none},   // 8 ... swapped
	{q: `{ f(x: 1) f(x: 1) }`, vars: none}, // 9 repeated field
	{q: `query($n: Int) { g(o: {k: "1,l=s2", n: $n}) }`, vars: []map[string]interface{}{nil, {"n": 3}}},                                   // 10 string mimicking the key encoding ...
	{q: `query($n: Int) { g(o: {k: "1", l: "2", n: $n}) }`, vars: []map[string]interface{}{nil, {"n": 3}}},                                // 11 ... of this one
	{q: `{ o { ...F } } fragment F on O { f(x: 1) }`, vars: none},                                                                         // 12 literal inside a fragment ...
	{q: `{ o { ...F } } fragment F on O { f(x: 2) }`, vars: none},                                                                         // 13 ... differs
	{q: `query A { a } query B { b }`, op: "A", vars: none},                                                                               // 14 two operations ...
	{q: `query A { a } query B { b }`, op: "B", vars: none},                                                                               // 15 ... other operation name
	{q: `query A { a } query B { b }`, op: "", vars: none},                                                                                // 16 ... none given (error)
	{q: `query($__pcv0: Int) { f(x: $__pcv0) k: f(x: 5) }`, vars: []map[string]interface{}{{"__pcv0": 9}}},                                // 17 user variable named like a synthetic one
	{q: `{ g(s: "a\u0000b") k: g(s: "__pcv0") }`, vars: none},                                                                             // 18 NUL and synthetic-looking text in strings
	{q: `{ e c f(in: {a: 1, c: B}) }`, vars: none},                                                                                        // 19 enum inside an input object, custom scalar out
	{q: `{ nope }`, vars: none},                                                                                                           // 20 validation error
	{q: `{ a `, vars: none},                                                                                                               // 21 syntax error
	{q: `{ i { x ... on O { f(x: 3) } } u { ... on P { z } } }`, vars: none},                                                              // 22 abstract positions (lazily planned)
	{q: `query($v: Boolean!) { a @include(if: $v) f(x: 4) }`, vars: []map[string]interface{}{{"v": true}, {"v": false}}},                  // 23 dynamic directive next to a literal
	{q: `query A { a } query B { b }`, op: "Nope", vars: none},                                                                            // 24 unknown operation name (vs 16: both have no normalised form)
	{q: `{ j: f(x: 2) }`, vars: none},                                                                                                     // 25 another alias (vs 6)
	{q: `query($l: [Int]!) { f(in: {a: 1, b: $l}) }`, vars: []map[string]interface{}{{"l": []interface{}{nil}}, {"l": []interface{}{1}}}}, // 26 variable type [Int]! ...
	{q: `query($l: [Int!]) { f(in: {a: 1, b: $l}) }`, vars: []map[string]interface{}{{"l": []interface{}{nil}}, {"l": []interface{}{1}}}}, // 27 ... vs [Int!]
	{q: `{ f(x: 3, y: B) k: f(y: B) }`, vars: none},                                                                                       // 28 static arguments (pre-coerced once per plan)
	// extended pool: explored in ordered pairs only (see pairPass)
	{q: `{ o { ...F } l { x ...F } } fragment F on O { y }`, vars: none},                                               // 29 a fragment spread twice ...
	{q: `{ o { ...F } l { x } } fragment F on O { y }`, vars: none},                                                    // 30 ... the second spread absent
	{q: `{ o { ...F } l { x ...F @skip(if: true) } } fragment F on O { y }`, vars: none},                               // 31 ... the second spread skipped
	{q: `{ f(x: 1) g(fl: 1) }`, vars: none},                                                                            // 32 one literal text at an Int and a Float position ...
	{q: `{ f(x: 1) g(fl: 2) }`, vars: none},                                                                            // 33 ... two texts
	{q: `{ f(x: 7) k: f(x: 7) }`, vars: none},                                                                          // 34 the same literal twice ...
	{q: `{ f(x: 7) k: f(x: 8) }`, vars: none},                                                                          // 35 ... and two different ones
	{q: `{ f(in: {a: 1, b: [1, 2]}) }`, vars: none},                                                                    // 36 list literal ...
	{q: `{ f(in: {a: 1, b: [1, 3]}) }`, vars: none},                                                                    // 37 ... differs in one item
	{q: `{ o { ... on O { x } ... on I { y: x } } }`, vars: none},                                                      // 38 inline fragments ...
	{q: `{ o { ... on I { x } ... on O { y: x } } }`, vars: none},                                                      // 39 ... type conditions swapped
	{q: `query($v: Boolean!) { o { x @skip(if: $v) } }`, vars: []map[string]interface{}{{"v": true}, {"v": false}}},    // 40 skip ...
	{q: `query($v: Boolean!) { o { x @include(if: $v) } }`, vars: []map[string]interface{}{{"v": true}, {"v": false}}}, // 41 ... against include
	{q: `{ f(x: 7) r(q: 7) }`, vars: none},       // 42 one literal text at a nullable and at a non-null position ...
	{q: `{ r(q: 7) f(x: 7) }`, vars: none},       // 43 ... in the other order
	{q: `{ f(x: 7) r(q: 1, l: 7) }`, vars: none}, // 44 ... and at a list position (single item)
	// an abstract field twice under one response key, the later occurrence gated by a variable, other sub-selection
	{q: `query($v: Boolean!) { i { x } i @include(if: $v) { ... on O { y } ... on P { z } } }`, vars: []map[string]interface{}{{"v": true}, {"v": false}}},                              // 45
	{q: `query($v: Boolean!) { u { ... on O { x } } ...G @skip(if: $v) } fragment G on Query { u { ... on O { y } ... on P { z } } }`, vars: []map[string]interface{}{{"v": true}, {"v": false}}}, // 46
	// composite literals whose Go formatting coincides although the values differ
	{q: `{ g(o: {k: "x l:y"}) j: g(o: {k: "x", l: "y"}) }`, vars: none}, // 47
	{q: `{ h(ls: ["a b"]) j: h(ls: ["a", "b"]) }`, vars: none},         // 48
}

const corePool = 29

type config struct {
	maxEntries int
	normalize  bool
	nilCache   bool
}

func (c config) String() string {
	if c.nilCache {
		return "nil cache"
	}
	return fmt.Sprintf("MaxEntries=%d Normalize=%v", c.maxEntries, c.normalize)
}

type op struct {
	kind   int // 0 get+execute, 1 reset, 2 oversize get
	schema int
	req    int
}

func (o op) String() string {
	switch o.kind {
	case 1:
		return "Reset"
	case 2:
		return fmt.Sprintf("Get(S%d, <over-size query>)", o.schema+1)
	}
	r := pool[o.req]
	return fmt.Sprintf("Get(S%d, %q, %q)+ExecutePlan", o.schema+1, r.q, r.op)
}

type world struct {
	fx       [2]*execx.Fixture
	baseline map[string]string
}

// argHooks makes the answer of fields with arguments depend on the arguments received, and
// scribbles on the argument map afterwards (a resolver may do that): a plan that hands out
// its own pre-coerced map shows on the next execution.
type argHooks struct{ bridge.Hooks }

func (h argHooks) Resolve(typeName string, f *gen.FieldDef, p graphql.ResolveParams) (interface{}, error) {
	if len(f.Args) > 0 && f.Type.Base() == "String" {
		out := model.Canon(map[string]interface{}(p.Args))
		for k := range p.Args {
			p.Args[k] = "scribbled"
		}
		p.Args["extra"] = true
		return out, nil
	}
	return h.Hooks.Resolve(typeName, f, p)
}

func newWorld() (*world, error) {
	w := &world{baseline: map[string]string{}}
	for i := range w.fx {
		f, err := execx.NewFixture(schemaG(), bridge.Options{})
		if err != nil {
			return nil, err
		}
		f.B.H = argHooks{f.W}
		w.fx[i] = f
	}
	return w, nil
}

func js(r *graphql.Result) string {
	// responses are compared as (data, error messages): error locations may legitimately
	// refer to the normalised document
	type e struct {
		Message string        `json:"message"`
		Path    []interface{} `json:"path,omitempty"`
	}
	var es []e
	for _, x := range r.Errors {
		es = append(es, e{x.Message, x.Path})
	}
	b, err := json.Marshal(map[string]interface{}{"data": r.Data, "errors": es})
	if err != nil {
		return "MARSHAL " + err.Error()
	}
	return string(b)
}

// fromScratch: parse + validate + execute, no cache involved.
func (w *world) fromScratch(si int, r req, vars map[string]interface{}) string {
	key := fmt.Sprint(si, r.q, r.op, vars)
	if v, ok := w.baseline[key]; ok {
		return v
	}
	f := w.fx[si]
	res := graphql.Do(graphql.Params{Schema: f.B.Schema, RequestString: r.q, OperationName: r.op, VariableValues: vars, RootObject: f.Root, Context: f.Ctx})
	v := js(res)
	w.baseline[key] = v
	return v
}

const oversize = 300

func newCache(cfg config) *graphql.PlanCache {
	if cfg.nilCache {
		return nil
	}
	return graphql.NewPlanCache(graphql.PlanCacheOptions{MaxEntries: cfg.maxEntries, Normalize: cfg.normalize, MaxQueryBytes: oversize})
}

// apply performs one operation on the cache and returns a mismatch description.
func (w *world) apply(c *graphql.PlanCache, cfg config, o op) (bad, fid string) {
	if o.kind == 1 {
		c.Reset()
		if n := graphql.VerifPlanCacheMapLen(c); n != 0 {
			return fmt.Sprintf("Reset left %d entries", n), ""
		}
		return "", ""
	}
	f := w.fx[o.schema]
	h0, m0 := c.HitsMisses()
	if o.kind == 2 {
		q := "{ a " + strings.Repeat(" ", oversize) + "}"
		before, _, _ := graphql.VerifPlanCacheKeys(c)
		pr := c.Get(&f.B.Schema, q, "")
		after, _, _ := graphql.VerifPlanCacheKeys(c)
		if pr.Plan == nil {
			return "over-size query not planned", ""
		}
		if len(after) != len(before) {
			return "an over-size query was cached", ""
		}
		return "", ""
	}
	r := pool[o.req]
	for _, vars := range r.vars {
		want := w.fromScratch(o.schema, r, vars)
		pr := c.Get(&f.B.Schema, r.q, r.op)
		var got string
		if len(pr.Errors) > 0 || pr.Plan == nil {
			if pr.Plan != nil {
				return "Get returned both a plan and errors", ""
			}
			got = js(&graphql.Result{Errors: pr.Errors})
		} else {
			args := map[string]interface{}{}
			for k, v := range vars {
				args[k] = v
			}
			for k, v := range pr.SynthArgs {
				if _, clash := args[k]; clash {
					return fmt.Sprintf("synthetic variable %q collides with a variable of the request", k), "C06-F5"
				}
				args[k] = v
			}
			got = js(graphql.ExecutePlan(pr.Plan, graphql.ExecuteParams{Schema: f.B.Schema, Args: args, Root: f.Root, Context: f.Ctx}))
		}
		if got != want {
			return fmt.Sprintf("through the cache %s, from scratch %s (variables %v)", got, want, vars), ""
		}
		// the original request still executes to its own answer afterwards
		if again := js(graphql.Do(graphql.Params{Schema: f.B.Schema, RequestString: r.q, OperationName: r.op, VariableValues: vars, RootObject: f.Root, Context: f.Ctx})); again != want {
			return fmt.Sprintf("after the cached execution the same request answers %s instead of %s", again, want), ""
		}
	}
	if c != nil {
		if n := graphql.VerifPlanCacheMapLen(c); n > cfg.maxEntries {
			return fmt.Sprintf("cache holds %d entries, MaxEntries is %d", n, cfg.maxEntries), ""
		}
		keys, _, _ := graphql.VerifPlanCacheKeys(c)
		if len(keys) != graphql.VerifPlanCacheMapLen(c) {
			return fmt.Sprintf("LRU list has %d items, map has %d", len(keys), graphql.VerifPlanCacheMapLen(c)), ""
		}
		h1, m1 := c.HitsMisses()
		lookups := uint64(len(r.vars))
		if _, perr := execx.Parse(r.q); perr != nil && cfg.normalize {
			lookups = 0 // a request that does not parse is not looked up in normalising mode
		}
		if (h1-h0)+(m1-m0) != lookups {
			return fmt.Sprintf("hits+misses grew by %d for %d lookups", (h1-h0)+(m1-m0), lookups), ""
		}
	}
	return "", ""
}

// canon: canonical form of a cache's private state.
func (w *world) canon(c *graphql.PlanCache) string {
	if c == nil {
		return "nil"
	}
	keys, schemas, hasPlan := graphql.VerifPlanCacheKeys(c)
	var b strings.Builder
	for i, k := range keys {
		si := "?"
		for j := range w.fx {
			if schemas[i] == &w.fx[j].B.Schema {
				si = fmt.Sprint(j)
			}
		}
		fmt.Fprintf(&b, "%q/S%s/%v;", k, si, hasPlan[i])
	}
	return b.String()
}

func ops() []op {
	var out []op
	for si := 0; si < 2; si++ {
		for ri := 0; ri < corePool; ri++ {
			if si == 1 && ri%3 != 0 {
				continue // the second schema sees every third query (enough for the pointer guard)
			}
			out = append(out, op{kind: 0, schema: si, req: ri})
		}
	}
	out = append(out, op{kind: 1}, op{kind: 2})
	return out
}

func configs() []config {
	return []config{{1, false, false}, {1, true, false}, {2, false, false}, {2, true, false}, {1024, true, false}, {1024, false, false}, {0, false, true}}
}

func run(c *core.Ctx) {
	w, err := newWorld()
	if err != nil {
		c.R.HarnessError("fixture: %v", err)
		return
	}
	c.R.Rule = "state = canonical private state of a real PlanCache (keys in LRU order, schema each entry is bound to, plan or errors) reached by replaying its shortest history on a fresh cache; transition = one operation among Get+ExecutePlan over a pool of 24 requests built in colliding pairs x 2 schema pointers x variable assignments, Reset, over-size Get; configurations MaxEntries in {1, 2, default} x Normalize off/on, nil cache; non-trivial = transitions served from a non-empty cache"
	c.R.Assumptions = []string{"state reached by replay on a fresh cache equals the state of the live cache (Get reads nothing else)", "canonical form from the dump hook (verif_dump.go in the overlay)", "responses compared as data + error messages + paths", "Go toolchain"}
	allOps := ops()
	depthSmall, depthDefault := c.Pick(3, 4), c.Pick(2, 3)
	c.R.Bounds["depth_MaxEntries_1_2"] = depthSmall
	c.R.Bounds["depth_default_size"] = depthDefault
	c.R.Bounds["operations"] = len(allOps)
	sigs := map[string]bool{}
	// ordered pairs over the whole pool (core and extended) on one schema: the second request
	// must be served as from scratch whatever the first one left in the cache
	pi := 0
	for ci, cfg := range configs() {
		if cfg.nilCache || cfg.maxEntries == 1 {
			continue
		}
		for a := range pool {
			for b := range pool {
				if a < corePool && b < corePool {
					continue // covered by the search above
				}
				pi++
				if !c.Mine(pi) {
					continue
				}
				cache := newCache(cfg)
				oa, ob := op{kind: 0, schema: 0, req: a}, op{kind: 0, schema: 0, req: b}
				w.apply(cache, cfg, oa)
				bad, fid := w.apply(cache, cfg, ob)
				c.R.Evaluations++
				c.R.Transitions += 2
				c.R.Nontriv(report.H(fmt.Sprint("pair", ci, a, b)))
				if bad != "" {
					sig := fmt.Sprint("pair", cfg.normalize, b, sigOf(bad))
					if !sigs[sig] {
						sigs[sig] = true
						if fid == "" {
							fid = classify(cfg, ob, bad)
						}
						c.Mismatch(fid, sig, fmt.Sprintf("%s, after [%s]: %s: %s", cfg, oa, ob, bad), map[string]interface{}{"config": ci, "pair": []int{a, b}})
					}
				}
			}
		}
	}
	c.R.Bounds["extended_pool_pairs"] = len(pool)*len(pool) - corePool*corePool
	for ci, cfg := range configs() {
		depth := depthSmall
		if cfg.maxEntries > 2 || cfg.nilCache {
			depth = depthDefault
		}
		// BFS; states are deduplicated globally (every worker builds the same frontier),
		// transitions out of a state are sharded by the state's index
		type st struct{ hist []int }
		seen := map[string]bool{}
		frontier := []st{{}}
		seen[w.canon(newCache(cfg))] = true
		stateIdx := 0
		for d := 0; d < depth; d++ {
			var next []st
			for _, s := range frontier {
				mine := c.Mine(stateIdx)
				stateIdx++
				for oi, o := range allOps {
					cache := newCache(cfg)
					for _, h := range s.hist {
						w.apply(cache, cfg, allOps[h])
					}
					nonEmpty := graphql.VerifPlanCacheMapLen(cache) > 0
					bad, fid := w.apply(cache, cfg, o)
					k := w.canon(cache)
					if !seen[k] {
						seen[k] = true
						next = append(next, st{append(append([]int{}, s.hist...), oi)})
					}
					if !mine {
						continue
					}
					c.R.Evaluations++
					c.R.Transitions++
					if nonEmpty {
						c.R.Nontriv(report.H(fmt.Sprint(ci, s.hist, oi)))
					}
					if bad != "" {
						var hs []string
						for _, h := range s.hist {
							hs = append(hs, allOps[h].String())
						}
						sig := fmt.Sprint(cfg.normalize, o.kind, o.req, sigOf(bad))
						if !sigs[sig] {
							sigs[sig] = true
							if fid == "" {
								fid = classify(cfg, o, bad)
							}
							c.Mismatch(fid, sig, fmt.Sprintf("%s, after [%s]: %s: %s", cfg, strings.Join(hs, "; "), o, bad),
								map[string]interface{}{"config": ci, "history": s.hist, "op": oi})
						}
					}
					if c.R.WantSample() {
						c.R.Sample(map[string]interface{}{"config": cfg.String(), "history": s.hist, "operation": o.String(), "state_after": k})
					}
				}
				if c.Expired() {
					return
				}
			}
			frontier = next
		}
		c.R.States += uint64(len(seen))
		c.R.Count("states_"+strings.ReplaceAll(cfg.String(), " ", "_"), uint64(len(seen)))
	}
	// prepared plans: one plan, every sequence of <= 3 executions with different variables
	for ri, r := range pool {
		if !c.Mine(ri) || len(r.vars) < 2 {
			continue
		}
		f := w.fx[0]
		doc, perr := execx.Parse(r.q)
		if perr != nil {
			continue
		}
		if _, err := graphql.PlanQuery(&f.B.Schema, doc, r.op); err != nil {
			continue
		}
		n := len(r.vars)
		for seq := 0; seq < n*n*n; seq++ {
			// a plan of its own for every sequence: what an execution leaves behind in the
			// plan is seen by the later executions of that sequence only
			plan, _ := graphql.PlanQuery(&f.B.Schema, doc, r.op)
			for k, s := 0, seq; k < 3; k, s = k+1, s/n {
				vars := r.vars[s%n]
				got := js(graphql.ExecutePlan(plan, graphql.ExecuteParams{Schema: f.B.Schema, Args: vars, Root: f.Root, Context: f.Ctx}))
				c.R.Evaluations++
				c.R.Transitions++
				if want := w.fromScratch(0, r, vars); got != want {
					c.Mismatch("", "prepared plan "+fmt.Sprint(ri), fmt.Sprintf("prepared plan of %q, execution %d of sequence %d with %v: %s, from scratch %s", r.q, k, seq, vars, got, want), map[string]interface{}{"plan": ri, "seq": seq})
				}
			}
		}
	}
	_ = sort.Strings
}

func sigOf(bad string) string {
	f := strings.Fields(bad)
	if len(f) > 4 {
		f = f[:4]
	}
	return strings.Join(f, " ")
}

func classify(cfg config, o op, bad string) string { return "" }

func replay(c *core.Ctx, p map[string]interface{}) (bool, string) {
	w, err := newWorld()
	if err != nil {
		return false, err.Error()
	}
	if _, ok := p["plan"]; ok {
		return false, "prepared-plan case: re-run the check"
	}
	cfg := configs()[int(p["config"].(float64))]
	allOps := ops()
	cache := newCache(cfg)
	if pr, ok := p["pair"].([]interface{}); ok && len(pr) == 2 {
		oa, ob := op{kind: 0, schema: 0, req: int(pr[0].(float64))}, op{kind: 0, schema: 0, req: int(pr[1].(float64))}
		w.apply(cache, cfg, oa)
		if bad, _ := w.apply(cache, cfg, ob); bad != "" {
			return false, fmt.Sprintf("%s, after [%s]: %s: %s", cfg, oa, ob, bad)
		}
		return true, "the cached path answers like the from-scratch path"
	}
	for _, h := range p["history"].([]interface{}) {
		w.apply(cache, cfg, allOps[int(h.(float64))])
	}
	o := allOps[int(p["op"].(float64))]
	if bad, _ := w.apply(cache, cfg, o); bad != "" {
		return false, fmt.Sprintf("%s: %s: %s", cfg, o, bad)
	}
	return true, "the cached path answers like the from-scratch path"
}
