// Command h is the worker: it runs one shard of one check against the graphql-go tree it
// was compiled with, and writes a partial evidence record.
package main

import (
	"encoding/json"
	"flag"
	"fmt"
	"os"
	"runtime/debug"
	"strconv"
	"strings"
	"time"
	"verif/h/langx"

	"verif/h/core"
	"verif/report"
)

func main() {
	check := flag.String("check", "", "property id")
	tier := flag.String("tier", "quick", "quick|thorough")
	shard := flag.Int("shard", 0, "")
	nshards := flag.Int("nshards", 1, "")
	out := flag.String("out", "", "partial report path")
	known := flag.String("findings", "/verif/known_findings.json", "")
	deadline := flag.Duration("deadline", 0, "internal deadline (0 = none)")
	replay := flag.String("replay", "", "replay artefact path")
	args := flag.String("args", "", "k=v,k=v extra arguments")
	list := flag.Bool("list", false, "list checks")
	flag.Parse()
	if *list {
		for _, id := range core.IDs() {
			r := ""
			if core.Registry[id].Race {
				r = " race"
			}
			fmt.Println(id + r)
		}
		return
	}
	kf, err := core.LoadKnown(*known)
	if err != nil {
		fmt.Fprintln(os.Stderr, "HARNESS-ERROR: known findings:", err)
		os.Exit(2)
	}
	seed, _ := strconv.ParseInt(os.Getenv("VERIF_SEED"), 10, 64)
	c := &core.Ctx{Tier: *tier, Shard: *shard, NShards: *nshards, Seed: seed, Known: kf, Args: map[string]string{}}
	for _, kv := range strings.Split(*args, ",") {
		if i := strings.IndexByte(kv, '='); i > 0 {
			c.Args[kv[:i]] = kv[i+1:]
		}
	}
	if *deadline > 0 {
		c.Deadline = time.Now().Add(*deadline)
		// flat enumerators stop at the internal deadline too (reported as not exhaustive)
		langx.Stop = c.Expired
	}
	if *replay != "" {
		b, err := os.ReadFile(*replay)
		if err != nil {
			fmt.Fprintln(os.Stderr, "HARNESS-ERROR:", err)
			os.Exit(2)
		}
		var payload map[string]interface{}
		if err := json.Unmarshal(b, &payload); err != nil {
			fmt.Fprintln(os.Stderr, "HARNESS-ERROR:", err)
			os.Exit(2)
		}
		id, _ := payload["check"].(string)
		ch := core.Registry[id]
		if ch == nil || ch.Replay == nil {
			fmt.Fprintln(os.Stderr, "HARNESS-ERROR: no replay for check", id)
			os.Exit(2)
		}
		c.Property = id
		c.R = report.New(id, *tier, 0, 1)
		ok, detail := ch.Replay(c, payload)
		fmt.Println(detail)
		if !ok {
			fmt.Printf("VIOLATION property=%s replay=%s\n", id, *replay)
			os.Exit(1)
		}
		fmt.Println("replay: property holds on this artefact")
		return
	}
	ch := core.Registry[*check]
	if ch == nil {
		fmt.Fprintln(os.Stderr, "HARNESS-ERROR: unknown check", *check)
		os.Exit(2)
	}
	c.Property = *check
	c.R = report.New(*check, *tier, *shard, *nshards)
	start := time.Now()
	func() {
		defer func() {
			if r := recover(); r != nil {
				c.R.HarnessError("worker panic: %v\n%s", r, debug.Stack())
			}
		}()
		ch.Run(c)
	}()
	c.R.Counters["worker_ms"] += uint64(time.Since(start).Milliseconds())
	if *out != "" {
		if err := c.R.Write(*out); err != nil {
			fmt.Fprintln(os.Stderr, "HARNESS-ERROR:", err)
			os.Exit(2)
		}
	}
	if len(c.R.HarnessErrors) > 0 {
		for _, e := range c.R.HarnessErrors {
			fmt.Fprintln(os.Stderr, "HARNESS-ERROR:", e)
		}
		os.Exit(2)
	}
}
