// Package langx enumerates the input spaces of the language-layer checks (C03, C08, C09,
// C18): token sequences over small alphabets by viable-prefix depth-first search against
// BOTH the model parser and the library parser, and raw byte strings.
package langx

import (
	"strings"

	"github.com/graphql-go/graphql/gqlerrors"
	"github.com/graphql-go/graphql/language/ast"
	"github.com/graphql-go/graphql/language/parser"
	"github.com/graphql-go/graphql/language/source"

	"verif/h/msyntax"
)

// Alphabet is a named list of token spellings.
type Alphabet struct {
	Name   string
	Tokens []string
	MaxLen [2]int // quick, thorough
}

var puncts = []string{"{", "}", "(", ")", ":", "$", "@", "...", "!", "[", "]", "=", "|", "&"}

// Alphabets: the full one plus focused sub-alphabets that reach deeper sentences.
var Alphabets = []Alphabet{
	{Name: "full", MaxLen: [2]int{6, 7}, Tokens: append(append([]string{}, puncts...),
		"a", "on", "query", "fragment", "true", "null", "type", "implements", "schema", "extend", "directive", "scalar", "enum", "input", "union", "interface", "mutation",
		"1", "1.5", `"s"`, `"on"`, `"implements"`, `"""b"""`)},
	{Name: "executable", MaxLen: [2]int{8, 10}, Tokens: []string{"{", "}", "(", ")", ":", "$", "@", "...", "a", "on", "query", "fragment", "true", "1", `"s"`, "!", "[", "]", "="}},
	{Name: "variable-definitions", MaxLen: [2]int{12, 14}, Tokens: []string{"query", "(", "$", "a", ":", "[", "]", "!", "=", "1", ")", "{", "}"}},
	{Name: "values", MaxLen: [2]int{10, 12}, Tokens: []string{"{", "a", "(", ":", "[", "]", "}", "$", "1", `"s"`, "true", ")", "null", "1.5", `"""b"""`}},
	{Name: "fragments-directives", MaxLen: [2]int{9, 11}, Tokens: []string{"{", "}", "...", "on", "a", "fragment", "@", "(", ")", ":", "1", `"on"`}},
	{Name: "type-system", MaxLen: [2]int{6, 8}, Tokens: []string{"type", "a", "implements", "&", "{", "}", ":", "(", ")", "[", "]", "!", "=", "@", `"s"`, "1", "|", "schema", "query", "extend", "directive", "on", "union", "enum", "input", "interface", "scalar", `"implements"`}},
}

// Verdict of one parser on one text.
type Verdict struct {
	OK     bool
	Pos    int  // byte offset of the error
	AtEOF  bool // the error is at the end of input (the text is a viable prefix)
	Msg    string
	Unspec bool
}

// Lib parses with the library.
func Lib(text []byte) (*ast.Document, Verdict, interface{}) {
	var doc *ast.Document
	var err error
	var pan interface{}
	func() {
		defer func() { pan = recover() }()
		doc, err = parser.Parse(parser.ParseParams{Source: source.NewSource(&source.Source{Body: text, Name: "GraphQL request"})})
	}()
	if pan != nil {
		return nil, Verdict{}, pan
	}
	if err == nil {
		return doc, Verdict{OK: true}, nil
	}
	v := Verdict{Msg: err.Error(), Pos: -1}
	if ge, ok := err.(*gqlerrors.Error); ok && len(ge.Positions) > 0 {
		v.Pos = ge.Positions[0]
		v.AtEOF = v.Pos >= len(strings.TrimRight(string(text), " \t\r\n,"))
	}
	return nil, v, nil
}

// Model parses with M-syntax.
func Model(text []byte) (*msyntax.Node, Verdict, *msyntax.Error) {
	n, err := msyntax.Parse(text)
	if err == nil {
		return n, Verdict{OK: true}, nil
	}
	return nil, Verdict{Pos: err.Pos, AtEOF: err.AtEOF, Msg: err.Msg, Unspec: err.Unspecified}, err
}

// Visit is called for every enumerated text. It returns whether the text may be extended
// (normally: model or library still considers it a viable prefix).
type Visit func(tokens []string, text []byte) (extend bool)

// TokenDFS enumerates token sequences of length 1..maxLen over the alphabet, depth first,
// extending a sequence only when visit says so. Sequences are sharded by their first two
// tokens.
func TokenDFS(a Alphabet, maxLen int, shard, nshards int, visit Visit) {
	toks := make([]string, 0, maxLen)
	var rec func()
	rec = func() {
		if halted() {
			return
		}
		text := []byte(strings.Join(toks, " "))
		if !visit(toks, text) || len(toks) >= maxLen {
			return
		}
		for _, t := range a.Tokens {
			toks = append(toks, t)
			rec()
			toks = toks[:len(toks)-1]
		}
	}
	n := len(a.Tokens)
	for i, t1 := range a.Tokens {
		// single-token sequences: by shard 0..; pairs sharded by (i*n+j)
		toks = append(toks[:0], t1)
		text := []byte(t1)
		ext := true
		if i%nshards == shard {
			ext = visit(toks, text)
		} else {
			ext = visitQuiet(visit, toks, text)
		}
		if !ext || maxLen < 2 {
			continue
		}
		for j, t2 := range a.Tokens {
			// pairs: judged by their owner, replayed quietly by the others; subtrees below
			// triples are the unit of work (finer than pairs: the viable subtrees differ in
			// size by orders of magnitude)
			toks = append(toks[:1], t2)
			text2 := []byte(t1 + " " + t2)
			ext2 := true
			if (i*n+j)%nshards == shard {
				ext2 = visit(toks, text2)
			} else {
				ext2 = visitQuiet(visit, toks, text2)
			}
			if !ext2 || maxLen < 3 {
				continue
			}
			for k, t3 := range a.Tokens {
				if ((i*n+j)*n+k)%nshards != shard {
					continue
				}
				toks = append(toks[:2], t3)
				rec()
			}
		}
		toks = toks[:0]
	}
}

// Quiet is set while TokenDFS replays a length-1 sequence that another shard owns, only to
// learn whether it may be extended: visitors must not count or judge then.
var Quiet bool

func visitQuiet(v Visit, toks []string, text []byte) bool {
	Quiet = true
	defer func() { Quiet = false }()
	return v(toks, text)
}

// ByteAlphabet for raw lexical exploration.
var ByteAlphabet = []byte{'a', '1', '0', '"', '\'', '\\', '#', '\n', '\r', ' ', ',', '.', '-', 'e', 'u', '{', '}', 0xC3, 0xA9, 0xEF, 0xBB, 0xBF, '\t', 0x07}

// Bytes enumerates all byte strings of length 1..maxLen over ByteAlphabet (sharded by
// the first two bytes).
// Stop, when set, is polled by the enumerators (every 256 visits); once it answers true
// the enumeration is abandoned. Checks set it to their deadline test.
var Stop func() bool

var stopTick int
var stopped bool

func halted() bool {
	if stopped {
		return true
	}
	stopTick++
	if Stop != nil && stopTick&255 == 0 && Stop() {
		stopped = true
	}
	return stopped
}

// ResetStop re-arms the enumerators (a new check run in the same process).
func ResetStop() { stopped, stopTick = false, 0 }

func Bytes(maxLen, shard, nshards int, visit func(text []byte)) {
	buf := make([]byte, 0, maxLen)
	var rec func()
	rec = func() {
		if halted() {
			return
		}
		visit(buf)
		if len(buf) >= maxLen {
			return
		}
		for _, b := range ByteAlphabet {
			buf = append(buf, b)
			rec()
			buf = buf[:len(buf)-1]
		}
	}
	n := len(ByteAlphabet)
	for i, b1 := range ByteAlphabet {
		buf = append(buf[:0], b1)
		if i%nshards == shard {
			visit(buf)
		}
		if maxLen < 2 {
			continue
		}
		for j, b2 := range ByteAlphabet {
			if (i*n+j)%nshards != shard {
				continue
			}
			buf = append(buf[:1], b2)
			rec()
		}
	}
}

// UnitAlphabet: like ByteAlphabet but multi-byte characters are single units (only valid
// UTF-8 is produced), including the Unicode line/paragraph separators and NEL, which are
// NOT line terminators in GraphQL.
var UnitAlphabet = []string{"a", "1", "\"", "\\", "#", "\n", "\r", " ", ",", ".", "-", "{", "}", "\u00e9", "\ufeff", "\u2028", "\u0085", "\t", "\U0001F600", "\x07", "\x7f"}

// Units enumerates all concatenations of 1..maxLen units (sharded by the first two).
func Units(maxLen, shard, nshards int, visit func(text []byte)) {
	var parts []string
	var rec func()
	rec = func() {
		if halted() {
			return
		}
		visit([]byte(strings.Join(parts, "")))
		if len(parts) >= maxLen {
			return
		}
		for _, u := range UnitAlphabet {
			parts = append(parts, u)
			rec()
			parts = parts[:len(parts)-1]
		}
	}
	n := len(UnitAlphabet)
	for i, u1 := range UnitAlphabet {
		parts = append(parts[:0], u1)
		if i%nshards == shard {
			visit([]byte(u1))
		}
		if maxLen < 2 {
			continue
		}
		for j, u2 := range UnitAlphabet {
			if (i*n+j)%nshards != shard {
				continue
			}
			parts = append(parts[:1], u2)
			rec()
		}
	}
}
