package langx

import "strings"

// Corpus: long sentences of the target grammar (20-70 tokens), one per family of
// productions, far beyond the length the viable-prefix enumeration reaches. Neighbourhood
// enumerates EVERY document within a bounded token-edit distance of each of them, so that
// productions that only occur deep inside a definition (directives after a default value
// of an argument definition, descriptions of enum values, nested list types with
// non-null markers, inline fragments below spreads, ...) are met with every token of the
// alphabet in every position. Tokens are separated by single spaces.
var Corpus = []string{
	// executable definitions
	`query Q ( $ a : [ Int ! ] ! = [ 1 ] $ b : In = { k : "s" l : [ true E ] } ) @ d ( x : 1.5 ) { r : f ( x : $ a y : { z : [ $ b ] } ) @ skip ( if : true ) { ... F ... on T @ d { g } ... @ d { h } ... { i } } }`,
	`mutation M { m ( in : { a : 1 b : [ ] c : { } } ) { x } n }`,
	`subscription S @ a @ b ( c : """b""" ) { s ( a : -1 b : 1e5 c : "on" ) }`,
	`fragment F on T @ d ( a : [ [ 1 ] ] ) { a : b ( c : 0 ) ... G @ e x { y { z } } }`,
	`{ a ... on on { on } ... fragment } fragment a on on { on : on ( on : on ) @ on }`,
	`query ( $ a : T ) { a } query B { b } { c }`,
	`query q ( $ query : [ [ type ! ] ] = [ [ ] ] ) { fragment : query ( type : $ query ) }`,
	// type-system definitions
	`schema @ d { query : Q mutation : M subscription : S }`,
	`"desc" type A implements B & C @ d ( a : 1 ) { "fd" f ( "ad" x : [ Int ! ] = [ 1 ] @ d y : E = V ) : [ T ! ] ! @ deprecated ( reason : "r" ) g : T }`,
	`type A implements & B { } type C implements D { f : T }`,
	`"""d""" interface I @ d { f ( a : Int ) : T g : [ [ T ] ! ] }`,
	`union U @ d = A | B | C union V = A`,
	`enum E @ d { "vd" A @ d ( x : [ 1 ] ) B """b""" C }`,
	`input In @ d { "fd" a : Int = 1 @ d b : [ In ! ] = [ { a : 1 } ] }`,
	`scalar S @ d ( a : { b : 1 } ) "d" scalar T`,
	`extend type A implements B @ d { f : T } extend type C { g ( a : Int ) : T }`,
	`directive @ d ( a : Int = 1 b : [ T ] ) on FIELD | QUERY "d" directive @ e on A`,
	`{ a } type A { f : T } fragment F on A { f } query Q { a } enum E { A }`,
}

// EditAlphabet: the tokens placed by replace and insert edits.
var EditAlphabet = append(append([]string{}, Alphabets[0].Tokens...), "-1", "Int")

// ReducedEditAlphabet: second edits of the quick tier.
var ReducedEditAlphabet = []string{"{", "}", "(", ")", ":", "a", "@", `"s"`, "$", "...", "!", "[", "]", "=", "|", "&", "on", "1"}

// Neighbourhood enumerates, for every corpus sentence, the sentence itself, every
// single-token edit (delete, replace by each alphabet token, insert each alphabet token in
// each gap, swap of adjacent tokens) and - for window > 0 - every second edit whose position
// lies within `window` tokens after the first edit's position (pairs of nearby edits; pairs of
// distant edits are the product of their single effects for a recursive-descent parser with
// one token of lookahead, and are left out). visit is called once per text; texts are dealt
// to shards by index.
func Neighbourhood(window, shard, nshards int, alphabet2 []string, visit func(seed int, toks []string, text []byte)) {
	idx := 0
	emit := func(seed int, toks []string) {
		if idx%nshards == shard {
			visit(seed, toks, []byte(strings.Join(toks, " ")))
		}
		idx++
	}
	// edits of toks at positions >= from (and < to): calls f with each edited copy and the
	// position of the edit in the edited copy
	edits := func(toks []string, from, to int, alphabet []string, f func(ed []string, pos int)) {
		n := len(toks)
		for i := from; i <= n && i < to; i++ {
			if i < n {
				ed := append(append([]string{}, toks[:i]...), toks[i+1:]...)
				f(ed, i)
				for _, t := range alphabet {
					if t == toks[i] {
						continue
					}
					ed := append([]string{}, toks...)
					ed[i] = t
					f(ed, i)
				}
				if i+1 < n && toks[i] != toks[i+1] {
					ed := append([]string{}, toks...)
					ed[i], ed[i+1] = ed[i+1], ed[i]
					f(ed, i)
				}
			}
			for _, t := range alphabet {
				ed := append(append(append([]string{}, toks[:i]...), t), toks[i:]...)
				f(ed, i)
			}
		}
	}
	for si, s := range Corpus {
		toks := strings.Fields(s)
		emit(si, toks)
		edits(toks, 0, len(toks)+1, EditAlphabet, func(ed []string, pos int) {
			if halted() {
				return
			}
			emit(si, ed)
			if window > 0 {
				edits(ed, pos, pos+window+1, alphabet2, func(ed2 []string, _ int) { emit(si, ed2) })
			}
		})
		if halted() {
			return
		}
	}
}
