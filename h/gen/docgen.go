package gen

import "fmt"

// Chooser is the explorer's face towards generators.
type Chooser interface {
	Choose(n int, label string) int
	Dev(n int, label string) int
	Flip(label string) bool
}

// DocGen builds valid-by-construction query documents over the kitchen schema. Every
// departure from the plainest document (`{a}`) is a costed deviation, so the explorer
// enumerates all documents within a deviation budget. New siblings default to a copy of
// the previous sibling (same response key), which forces merging; composite copies get a
// different sub-leaf so that merged sub-selections must be united.
type DocGen struct {
	S        *Schema
	X        Chooser
	MaxDepth int // nesting depth of composite fields
	MaxSibs  int
	RootType string
	RootKind string // query | mutation

	used     map[string]bool // variables used: v w x e in
	frags    []*Frag
	inFrag   int
	fragOK   map[string]bool
	defining map[string]bool
}

type tmpl struct {
	kind   SKind
	name   string // field or fragment name
	cond   string
	noCond bool
	args   int // argument variant for f
}

func (g *DocGen) leafNames(t string) []string {
	var out []string
	td := g.S.Type(t)
	if td == nil {
		return nil
	}
	for _, f := range td.Fields {
		if g.S.IsLeaf(f.Type.Base()) && len(f.Args) == 0 {
			out = append(out, f.Name)
		}
	}
	return out
}

func (g *DocGen) options(t string, depth int) []tmpl {
	td := g.S.Type(t)
	var out []tmpl
	switch td.Kind {
	case KObject, KInterface:
		for _, f := range td.Fields {
			if g.S.IsLeaf(f.Type.Base()) && len(f.Args) == 0 {
				out = append(out, tmpl{kind: SField, name: f.Name})
			}
		}
	}
	out = append(out, tmpl{kind: SField, name: "__typename"})
	if td.Kind == KObject {
		for _, f := range td.Fields {
			if len(f.Args) > 0 {
				out = append(out, tmpl{kind: SField, name: f.Name, args: -1})
			}
		}
	}
	if depth < g.MaxDepth {
		if td.Kind == KObject {
			for _, f := range td.Fields {
				if g.S.IsComposite(f.Type.Base()) {
					out = append(out, tmpl{kind: SField, name: f.Name})
				}
			}
		}
		// inline fragments
		out = append(out, tmpl{kind: SInline, noCond: true})
		for _, c := range g.condsFor(t) {
			out = append(out, tmpl{kind: SInline, cond: c})
		}
		if g.inFrag < 2 {
			for _, c := range g.condsFor(t) {
				if !g.defining["F"+c] {
					out = append(out, tmpl{kind: SSpread, name: "F" + c, cond: c})
				}
			}
			if g.inFrag == 0 {
				out = append(out, tmpl{kind: SSpread, name: "G" + t, cond: t})
			}
		}
	}
	return out
}

// condsFor lists type conditions that can apply to a value of static type t.
func (g *DocGen) condsFor(t string) []string {
	out := []string{t}
	poss := g.S.PossibleTypes(t)
	for _, n := range g.S.Order {
		if n == t || !g.S.IsComposite(n) || n == g.S.Query || n == g.S.Mutation || n == g.S.Subscription {
			continue
		}
		// overlap of possible types
		ok := false
		for _, p := range g.S.PossibleTypes(n) {
			for _, q := range poss {
				if p == q {
					ok = true
				}
			}
		}
		if ok {
			out = append(out, n)
		}
	}
	return out
}

var dirVariants = [][]Dir{
	nil,
	{{Name: "skip", Args: []Arg{{"if", VarV("v")}}}},
	{{Name: "include", Args: []Arg{{"if", VarV("w")}}}},
	{{Name: "skip", Args: []Arg{{"if", BoolV(true)}}}},
	{{Name: "include", Args: []Arg{{"if", BoolV(false)}}}},
	{{Name: "skip", Args: []Arg{{"if", VarV("v")}}}, {Name: "include", Args: []Arg{{"if", VarV("w")}}}},
	{{Name: "include", Args: []Arg{{"if", VarV("w")}}}, {Name: "skip", Args: []Arg{{"if", BoolV(false)}}}},
	{{Name: "skip", Args: []Arg{{"if", VarV("w")}}}},
}

func (g *DocGen) dirs() []Dir {
	k := g.X.Dev(len(dirVariants), "directive")
	for _, d := range dirVariants[k] {
		for _, a := range d.Args {
			if a.Val.Kind == VVar {
				g.used[a.Val.S] = true
			}
		}
	}
	return dirVariants[k]
}

// argument variants per field name
func (g *DocGen) argVariants(parent, field string) [][]Arg {
	if parent == g.S.Query && field == "f" {
		return [][]Arg{
			nil,
			{{"x", IntV(1)}},
			{{"x", VarV("x")}},
			{{"y", EnumV("B")}},
			{{"y", VarV("e")}},
			{{"in", ParseValue("{a:1}")}},
			{{"in", ParseValue("{a:1,b:[1,$x],c:$e}")}},
			{{"in", VarV("in")}},
			{{"in", ParseValue("{a:1,d:{}}")}},
			{{"x", IntV(2)}, {"y", EnumV("A")}},
			{{"in", ParseValue("{a:1,b:3}")}},
			{{"in", ParseValue("{a:1,b:[1,$x]}")}},
			{{"in", ParseValue("{a:2,d:{k:$s}}")}},
			{{"lin", ParseValue("[{a:1,b:[$x]},{a:2}]")}},
			{{"ll", ParseValue("[[1,$x],[2]]")}},
			{{"in", ParseValue("{c:$e,a:1,b:[2]}")}},
		}
	}
	return [][]Arg{nil, {{"x", IntV(1)}}, {{"x", VarV("x")}}}
}

func (g *DocGen) noteVars(as []Arg) {
	var walk func(v Value)
	walk = func(v Value) {
		switch v.Kind {
		case VVar:
			g.used[v.S] = true
		case VList:
			for _, i := range v.Items {
				walk(i)
			}
		case VObject:
			for _, f := range v.Fields {
				walk(f.Val)
			}
		}
	}
	for _, a := range as {
		walk(a.Val)
	}
}

func (g *DocGen) selset(t string, depth int, variant int) []*Sel {
	var sels []*Sel
	var prev *tmpl
	for i := 0; i < g.MaxSibs; i++ {
		if i > 0 && !g.X.Flip("sibling") {
			break
		}
		s, tm := g.node(t, depth, prev, variant+i)
		sels = append(sels, s)
		prev = tm
	}
	return sels
}

func (g *DocGen) node(t string, depth int, prev *tmpl, variant int) (*Sel, *tmpl) {
	opts := g.options(t, depth)
	// default = copy of the previous sibling, else the first option
	start := 0
	if prev != nil {
		for i, o := range opts {
			if o.kind == prev.kind && o.name == prev.name && o.cond == prev.cond && o.noCond == prev.noCond {
				start = i
			}
		}
	}
	k := g.X.Dev(len(opts), "kind")
	tm := opts[(start+k)%len(opts)]
	s := &Sel{Kind: tm.kind}
	switch tm.kind {
	case SField:
		s.Name = tm.name
		fd := g.S.FieldOf(t, tm.name)
		if tm.args == -1 {
			vs := g.argVariants(t, tm.name)
			if prev != nil && prev.name == tm.name && prev.kind == SField {
				tm.args = prev.args // a second occurrence must carry identical arguments
			} else {
				tm.args = g.X.Dev(len(vs), "args")
			}
			s.Args = vs[tm.args]
			g.noteVars(s.Args)
		}
		// alias: an argument variant always gets its own response key (so equal keys always
		// mean equal field and arguments); otherwise an alias is a deviation
		if tm.args > 0 {
			s.Alias = fmt.Sprintf("k_%s%d", tm.name, tm.args)
		} else if tm.name != "__typename" && g.X.Flip("alias") {
			s.Alias = "k_" + tm.name
		}
		s.Dirs = g.dirs()
		if fd != nil && g.S.IsComposite(fd.Type.Base()) {
			s.Sel = g.selset(fd.Type.Base(), depth+1, variant)
			// make the copy differ in its first sub-leaf so that merging must unite
			if variant > 0 && len(s.Sel) == 1 && s.Sel[0].Kind == SField && len(s.Sel[0].Sel) == 0 && len(s.Sel[0].Args) == 0 {
				ls := g.leafNames(fd.Type.Base())
				if len(ls) > 1 && s.Sel[0].Alias == "" {
					for i, n := range ls {
						if n == s.Sel[0].Name {
							s.Sel[0].Name = ls[(i+variant)%len(ls)]
							break
						}
					}
				}
			}
		}
	case SInline:
		s.HasCond = !tm.noCond
		s.Cond = tm.cond
		s.Dirs = g.dirs()
		inner := t
		if s.HasCond {
			inner = tm.cond
		}
		s.Sel = g.selset(inner, depth+1, variant)
	case SSpread:
		s.Name = tm.name
		s.Dirs = g.dirs()
		if !g.fragOK[tm.name] {
			g.fragOK[tm.name] = true
			f := &Frag{Name: tm.name, Cond: tm.cond}
			g.frags = append(g.frags, f)
			g.inFrag++
			g.defining[tm.name] = true
			v := 0
			if tm.name[0] == 'G' {
				v = 1
			}
			f.Sel = g.selset(tm.cond, depth+1, v)
			g.defining[tm.name] = false
			g.inFrag--
		}
	}
	return s, &tm
}

var varTypes = map[string]*TypeRef{
	"v": NonNull(Named("Boolean")), "w": NonNull(Named("Boolean")), "x": Named("Int"), "e": Named("E"), "in": Named("In"), "s": Named("String"),
}
var varOrder = []string{"v", "w", "x", "e", "in", "s"}

// Query generates one document with a single (possibly named) operation.
func (g *DocGen) Query() *Doc {
	g.used = map[string]bool{}
	g.fragOK = map[string]bool{}
	g.defining = map[string]bool{}
	g.frags = nil
	if g.RootType == "" {
		g.RootType, g.RootKind = g.S.Query, "query"
	}
	op := &Op{Kind: g.RootKind, Short: true}
	op.Sel = g.selset(g.RootType, 0, 0)
	for _, n := range varOrder {
		if g.used[n] {
			vd := &VarDef{Name: n, Type: varTypes[n]}
			op.Vars = append(op.Vars, vd)
		}
	}
	// variable default (only for nullable variables): a deviation
	for _, vd := range op.Vars {
		if vd.Name == "x" && g.X.Flip("vardefault") {
			d := IntV(9)
			vd.Default = &d
		}
		if vd.Name == "e" && g.X.Flip("vardefault") {
			d := EnumV("A")
			vd.Default = &d
		}
	}
	d := &Doc{Ops: []*Op{op}, Frags: g.frags}
	// operation shape: short form / named / two operations with operationName
	switch g.X.Dev(3, "opshape") {
	case 1:
		op.Name, op.Short = "A", false
	case 2:
		op.Name, op.Short = "A", false
		d.Ops = append(d.Ops, &Op{Kind: "query", Name: "B", Sel: []*Sel{{Kind: SField, Name: "b"}}})
	}
	if g.RootKind != "query" {
		op.Short = false
	}
	return d
}

// Assignments enumerates the value choices for each declared variable.
var VarDomain = map[string][]interface{}{
	"v":  {false, true},
	"w":  {true, false},
	"x":  {nil, 5},
	"e":  {nil, "B"},
	"s":  {"sv", nil},
	"in": {nil, map[string]interface{}{"a": 2}, map[string]interface{}{"a": 3, "b": []interface{}{1, nil}, "d": map[string]interface{}{}}},
}
