package gen

import (
	"fmt"
	"strconv"
	"strings"
)

type VKind int

const (
	VInt VKind = iota
	VFloat
	VString
	VBool
	VEnum
	VList
	VObject
	VVar
)

// Value is a GraphQL literal (or variable reference).
type Value struct {
	Kind   VKind
	S      string // raw text for Int/Float, content for String, name for Enum/Var
	B      bool
	Items  []Value
	Fields []Arg
}

type Arg struct {
	Name string
	Val  Value
}

func IntV(i int64) Value      { return Value{Kind: VInt, S: strconv.FormatInt(i, 10)} }
func StrV(s string) Value     { return Value{Kind: VString, S: s} }
func BoolV(b bool) Value      { return Value{Kind: VBool, B: b} }
func EnumV(n string) Value    { return Value{Kind: VEnum, S: n} }
func VarV(n string) Value     { return Value{Kind: VVar, S: n} }
func ListV(it ...Value) Value { return Value{Kind: VList, Items: it} }
func ObjV(f ...Arg) Value     { return Value{Kind: VObject, Fields: f} }
func FloatV(s string) Value   { return Value{Kind: VFloat, S: s} }

func (v Value) HasVar() bool {
	switch v.Kind {
	case VVar:
		return true
	case VList:
		for _, i := range v.Items {
			if i.HasVar() {
				return true
			}
		}
	case VObject:
		for _, f := range v.Fields {
			if f.Val.HasVar() {
				return true
			}
		}
	}
	return false
}

func quote(s string) string {
	var b strings.Builder
	b.WriteByte('"')
	for _, r := range s {
		switch r {
		case '"':
			b.WriteString(`\"`)
		case '\\':
			b.WriteString(`\\`)
		case '\n':
			b.WriteString(`\n`)
		case '\r':
			b.WriteString(`\r`)
		case '\t':
			b.WriteString(`\t`)
		default:
			if r < 0x20 || r == 0x7f {
				fmt.Fprintf(&b, `\u%04x`, r)
			} else {
				b.WriteRune(r)
			}
		}
	}
	b.WriteByte('"')
	return b.String()
}

func (v Value) Render() string {
	switch v.Kind {
	case VInt, VFloat, VEnum:
		return v.S
	case VString:
		return quote(v.S)
	case VBool:
		return strconv.FormatBool(v.B)
	case VVar:
		return "$" + v.S
	case VList:
		var p []string
		for _, i := range v.Items {
			p = append(p, i.Render())
		}
		return "[" + strings.Join(p, ", ") + "]"
	case VObject:
		var p []string
		for _, f := range v.Fields {
			p = append(p, f.Name+": "+f.Val.Render())
		}
		return "{" + strings.Join(p, ", ") + "}"
	}
	return "?"
}

// ParseValue reads the compact notation used in schema specs: 7, 1.5, "s", true, A, [1,2], {a:1}, $v.
func ParseValue(s string) Value {
	p := &vparser{s: s}
	v := p.value()
	return v
}

type vparser struct {
	s string
	i int
}

func (p *vparser) ws() {
	for p.i < len(p.s) && (p.s[p.i] == ' ' || p.s[p.i] == ',') {
		p.i++
	}
}

func (p *vparser) value() Value {
	p.ws()
	if p.i >= len(p.s) {
		panic("gen.ParseValue: empty")
	}
	c := p.s[p.i]
	switch {
	case c == '[':
		p.i++
		v := Value{Kind: VList}
		for {
			p.ws()
			if p.s[p.i] == ']' {
				p.i++
				return v
			}
			v.Items = append(v.Items, p.value())
		}
	case c == '{':
		p.i++
		v := Value{Kind: VObject}
		for {
			p.ws()
			if p.s[p.i] == '}' {
				p.i++
				return v
			}
			j := p.i
			for p.s[p.i] != ':' {
				p.i++
			}
			name := strings.TrimSpace(p.s[j:p.i])
			p.i++
			v.Fields = append(v.Fields, Arg{name, p.value()})
		}
	case c == '"':
		j := p.i + 1
		p.i++
		for p.s[p.i] != '"' {
			p.i++
		}
		p.i++
		return StrV(p.s[j : p.i-1])
	case c == '$':
		j := p.i + 1
		p.i++
		for p.i < len(p.s) && isNameChar(p.s[p.i]) {
			p.i++
		}
		return VarV(p.s[j:p.i])
	case c == '-' || (c >= '0' && c <= '9'):
		j := p.i
		p.i++
		fl := false
		for p.i < len(p.s) && (p.s[p.i] == '.' || p.s[p.i] == 'e' || p.s[p.i] == 'E' || p.s[p.i] == '-' || p.s[p.i] == '+' || (p.s[p.i] >= '0' && p.s[p.i] <= '9')) {
			if p.s[p.i] == '.' || p.s[p.i] == 'e' || p.s[p.i] == 'E' {
				fl = true
			}
			p.i++
		}
		if fl {
			return FloatV(p.s[j:p.i])
		}
		return Value{Kind: VInt, S: p.s[j:p.i]}
	default:
		j := p.i
		for p.i < len(p.s) && isNameChar(p.s[p.i]) {
			p.i++
		}
		w := p.s[j:p.i]
		switch w {
		case "true":
			return BoolV(true)
		case "false":
			return BoolV(false)
		}
		return EnumV(w)
	}
}

func isNameChar(c byte) bool {
	return c == '_' || (c >= 'a' && c <= 'z') || (c >= 'A' && c <= 'Z') || (c >= '0' && c <= '9')
}

// ---- documents ----

type SKind int

const (
	SField SKind = iota
	SInline
	SSpread
)

type Dir struct {
	Name string
	Args []Arg
}

type Sel struct {
	Kind    SKind
	Alias   string
	Name    string // field name or fragment name
	Args    []Arg
	Dirs    []Dir
	Sel     []*Sel
	HasCond bool
	Cond    string // type condition of an inline fragment
}

func (s *Sel) Key() string {
	if s.Alias != "" {
		return s.Alias
	}
	return s.Name
}

type VarDef struct {
	Name    string
	Type    *TypeRef
	Default *Value
}

type Op struct {
	Kind string // query | mutation | subscription
	Name string // "" = anonymous
	Vars []*VarDef
	Dirs []Dir
	Sel  []*Sel
	// Short renders `{...}` without the `query` keyword (only legal for an anonymous query
	// without variables and directives).
	Short bool
}

type Frag struct {
	Name string
	Cond string
	Dirs []Dir
	Sel  []*Sel
}

type Doc struct {
	Ops   []*Op
	Frags []*Frag
}

func (d *Doc) Frag(n string) *Frag {
	for _, f := range d.Frags {
		if f.Name == n {
			return f
		}
	}
	return nil
}

func renderDirs(b *strings.Builder, ds []Dir) {
	for _, d := range ds {
		b.WriteString(" @" + d.Name)
		renderArgs(b, d.Args)
	}
}

func renderArgs(b *strings.Builder, as []Arg) {
	if len(as) == 0 {
		return
	}
	b.WriteString("(")
	for i, a := range as {
		if i > 0 {
			b.WriteString(", ")
		}
		b.WriteString(a.Name + ": " + a.Val.Render())
	}
	b.WriteString(")")
}

func renderSels(b *strings.Builder, ss []*Sel) {
	b.WriteString("{")
	for i, s := range ss {
		if i > 0 {
			b.WriteString(" ")
		}
		switch s.Kind {
		case SField:
			if s.Alias != "" {
				b.WriteString(s.Alias + ": ")
			}
			b.WriteString(s.Name)
			renderArgs(b, s.Args)
			renderDirs(b, s.Dirs)
			if len(s.Sel) > 0 {
				b.WriteString(" ")
				renderSels(b, s.Sel)
			}
		case SInline:
			b.WriteString("...")
			if s.HasCond {
				b.WriteString(" on " + s.Cond)
			}
			renderDirs(b, s.Dirs)
			b.WriteString(" ")
			renderSels(b, s.Sel)
		case SSpread:
			b.WriteString("..." + s.Name)
			renderDirs(b, s.Dirs)
		}
	}
	b.WriteString("}")
}

// Render is the generator's own printer (single spaces between tokens).
func (d *Doc) Render() string {
	var b strings.Builder
	for i, o := range d.Ops {
		if i > 0 {
			b.WriteString(" ")
		}
		if !(o.Short && o.Kind == "query" && o.Name == "" && len(o.Vars) == 0 && len(o.Dirs) == 0) {
			b.WriteString(o.Kind)
			if o.Name != "" {
				b.WriteString(" " + o.Name)
			}
			if len(o.Vars) > 0 {
				b.WriteString("(")
				for j, v := range o.Vars {
					if j > 0 {
						b.WriteString(", ")
					}
					b.WriteString("$" + v.Name + ": " + v.Type.String())
					if v.Default != nil {
						b.WriteString(" = " + v.Default.Render())
					}
				}
				b.WriteString(")")
			}
			renderDirs(&b, o.Dirs)
			b.WriteString(" ")
		}
		renderSels(&b, o.Sel)
	}
	for _, f := range d.Frags {
		b.WriteString(" fragment " + f.Name + " on " + f.Cond)
		renderDirs(&b, f.Dirs)
		b.WriteString(" ")
		renderSels(&b, f.Sel)
	}
	return strings.TrimSpace(b.String())
}
