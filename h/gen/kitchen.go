package gen

// Kitchen is the schema family K of DESIGN.md E6: small, but every feature collides with
// another one (two implementers of I, O implements two interfaces, a union over the same
// objects, enums with non-name internal values, nested input objects with defaults, lists
// of every nullability, a self-referential object).
func Kitchen() *Schema {
	s := &Schema{Query: "Query", Mutation: "Mutation", Subscription: "Subscription"}
	s.Add(&TypeDef{Kind: KEnum, Name: "E", Values: []*EnumVal{{Name: "A", Internal: 10}, {Name: "B", Internal: 20}}})
	s.Add(&TypeDef{Kind: KScalar, Name: "Custom"})
	s.Add(&TypeDef{Kind: KInput, Name: "In2", Inputs: []*ArgDef{A(`k:String="dk"`)}})
	s.Add(&TypeDef{Kind: KInput, Name: "In", Inputs: []*ArgDef{A("a:Int!"), A("b:[Int]"), A("c:E=A"), A("d:In2")}})
	s.Add(&TypeDef{Kind: KInterface, Name: "I", Fields: []*FieldDef{F("x:String")}})
	s.Add(&TypeDef{Kind: KInterface, Name: "J", Fields: []*FieldDef{F("y:String")}})
	s.Add(&TypeDef{Kind: KObject, Name: "O", Interfaces: []string{"I", "J"}, Fields: []*FieldDef{
		F("x:String"), F("y:String"), F("n:String!"), F("o:O"), F("e:E"), F("f(x:Int=7):String"), F("i:I"), F("l:[O]"), F("c:Custom")}})
	s.Add(&TypeDef{Kind: KObject, Name: "P", Interfaces: []string{"I"}, Fields: []*FieldDef{F("x:String"), F("z:String"), F("o:O")}})
	s.Add(&TypeDef{Kind: KUnion, Name: "U", Members: []string{"O", "P"}})
	s.Add(&TypeDef{Kind: KObject, Name: "Query", Fields: []*FieldDef{
		F("a:String"), F("b:Int"), F("n:String!"), F("e:E"), F("f(x:Int=7,y:E,in:In,lin:[In!],ll:[[Int]]):String"),
		F("o:O"), F("on:O!"), F("i:I"), F("u:U"), F("l:[O]"), F("ln:[O!]!"), F("ll:[[O]]"), F("li:[I]"), F("c:Custom"), F("fl:Float"), F("id:ID"), F("bo:Boolean")}})
	s.Add(&TypeDef{Kind: KObject, Name: "Mutation", Fields: []*FieldDef{
		F("m1:Int"), F("m2:Int"), F("m3:O"), F("m4:[O]"), F("m5:Int!")}})
	s.Add(&TypeDef{Kind: KObject, Name: "Subscription", Fields: []*FieldDef{F("s:O"), F("t:String")}})
	return s
}

// KitchenCovariant is Kitchen plus a covariant interface field (I.p: I implemented by
// O.p: O), which makes schema construction itself consult the possible-type table.
func KitchenCovariant() *Schema {
	s := Kitchen()
	s.Types["I"].Fields = append(s.Types["I"].Fields, F("p:I"))
	s.Types["O"].Fields = append(s.Types["O"].Fields, F("p:O"))
	s.Types["P"].Fields = append(s.Types["P"].Fields, F("p:I"))
	return s
}

// KitchenArgs is Kitchen plus fields with a required argument and one argument of every
// input type shape (used by the validation and type-tracking checks).
func KitchenArgs() *Schema {
	s := Kitchen()
	q := s.Types["Query"]
	q.Fields = append(q.Fields,
		F("r(q:Int!):String"),
		F("g(i:Int,fl:Float,s:String,id:ID,bo:Boolean,c:Custom,e:E,li:[Int],ln:[Int!]!,ll:[[Int]],in:In,lin:[In!]):String"))
	o := s.Types["O"]
	o.Fields = append(o.Fields, F("r(q:Int!,d:Int=3):String"))
	return s
}
