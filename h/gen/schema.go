// Package gen holds the generator-side data structures (DESIGN.md E6): schemas and
// documents as plain Go values that the reference models interpret directly, plus the
// one-way bridges to the library (text for documents, constructor calls for schemas).
package gen

import (
	"fmt"
	"sort"
	"strings"
)

type TKind int

const (
	TNamed TKind = iota
	TList
	TNonNull
)

// TypeRef is a (possibly wrapped) reference to a named type.
type TypeRef struct {
	Kind TKind
	Name string
	Of   *TypeRef
}

func Named(n string) *TypeRef      { return &TypeRef{Kind: TNamed, Name: n} }
func ListOf(t *TypeRef) *TypeRef   { return &TypeRef{Kind: TList, Of: t} }
func NonNull(t *TypeRef) *TypeRef  { return &TypeRef{Kind: TNonNull, Of: t} }
func (t *TypeRef) IsNonNull() bool { return t.Kind == TNonNull }
func (t *TypeRef) Nullable() *TypeRef {
	if t.Kind == TNonNull {
		return t.Of
	}
	return t
}
func (t *TypeRef) Base() string {
	for t.Kind != TNamed {
		t = t.Of
	}
	return t.Name
}
func (t *TypeRef) String() string {
	switch t.Kind {
	case TList:
		return "[" + t.Of.String() + "]"
	case TNonNull:
		return t.Of.String() + "!"
	}
	return t.Name
}

// ParseType reads "[[O!]]!" style notation.
func ParseType(s string) *TypeRef {
	s = strings.TrimSpace(s)
	if strings.HasSuffix(s, "!") {
		return NonNull(ParseType(s[:len(s)-1]))
	}
	if strings.HasPrefix(s, "[") && strings.HasSuffix(s, "]") {
		return ListOf(ParseType(s[1 : len(s)-1]))
	}
	return Named(s)
}

func (t *TypeRef) Equal(u *TypeRef) bool {
	if t == nil || u == nil {
		return t == u
	}
	if t.Kind != u.Kind {
		return false
	}
	if t.Kind == TNamed {
		return t.Name == u.Name
	}
	return t.Of.Equal(u.Of)
}

type DefKind int

const (
	KScalar DefKind = iota
	KObject
	KInterface
	KUnion
	KEnum
	KInput
)

type ArgDef struct {
	Name    string
	Type    *TypeRef
	Default *Value // nil = none
}

type FieldDef struct {
	Name       string
	Type       *TypeRef
	Args       []*ArgDef
	Deprecated string
}

func (f *FieldDef) Arg(n string) *ArgDef {
	for _, a := range f.Args {
		if a.Name == n {
			return a
		}
	}
	return nil
}

type EnumVal struct {
	Name       string
	Internal   interface{} // Go value resolvers return / receive
	Deprecated string
}

type TypeDef struct {
	Kind       DefKind
	Name       string
	Fields     []*FieldDef // object, interface
	Interfaces []string    // object
	Members    []string    // union
	Values     []*EnumVal  // enum
	Inputs     []*ArgDef   // input object
}

func (t *TypeDef) Field(n string) *FieldDef {
	for _, f := range t.Fields {
		if f.Name == n {
			return f
		}
	}
	return nil
}
func (t *TypeDef) Input(n string) *ArgDef {
	for _, f := range t.Inputs {
		if f.Name == n {
			return f
		}
	}
	return nil
}
func (t *TypeDef) EnumByName(n string) *EnumVal {
	for _, v := range t.Values {
		if v.Name == n {
			return v
		}
	}
	return nil
}
func (t *TypeDef) EnumByInternal(x interface{}) *EnumVal {
	for _, v := range t.Values {
		if v.Internal == x {
			return v
		}
	}
	return nil
}

type Schema struct {
	Types        map[string]*TypeDef
	Order        []string // declaration order of user types
	Query        string
	Mutation     string
	Subscription string
}

var builtinScalars = map[string]bool{"Int": true, "Float": true, "String": true, "Boolean": true, "ID": true}

func (s *Schema) Type(n string) *TypeDef {
	if t, ok := s.Types[n]; ok {
		return t
	}
	if builtinScalars[n] {
		return &TypeDef{Kind: KScalar, Name: n}
	}
	return nil
}

func (s *Schema) Add(t *TypeDef) *TypeDef {
	if s.Types == nil {
		s.Types = map[string]*TypeDef{}
	}
	s.Types[t.Name] = t
	s.Order = append(s.Order, t.Name)
	return t
}

func (s *Schema) IsLeaf(n string) bool {
	t := s.Type(n)
	return t != nil && (t.Kind == KScalar || t.Kind == KEnum)
}
func (s *Schema) IsComposite(n string) bool {
	t := s.Type(n)
	return t != nil && (t.Kind == KObject || t.Kind == KInterface || t.Kind == KUnion)
}
func (s *Schema) IsAbstract(n string) bool {
	t := s.Type(n)
	return t != nil && (t.Kind == KInterface || t.Kind == KUnion)
}
func (s *Schema) IsInput(n string) bool {
	t := s.Type(n)
	return t != nil && (t.Kind == KScalar || t.Kind == KEnum || t.Kind == KInput)
}

// PossibleTypes returns the object type names an abstract (or object) type can be at runtime,
// in declaration order.
func (s *Schema) PossibleTypes(n string) []string {
	t := s.Type(n)
	if t == nil {
		return nil
	}
	switch t.Kind {
	case KObject:
		return []string{n}
	case KUnion:
		return append([]string{}, t.Members...)
	case KInterface:
		var out []string
		for _, on := range s.Order {
			o := s.Types[on]
			if o.Kind != KObject {
				continue
			}
			for _, i := range o.Interfaces {
				if i == n {
					out = append(out, on)
				}
			}
		}
		return out
	}
	return nil
}

func (s *Schema) IsPossible(abstract, object string) bool {
	for _, p := range s.PossibleTypes(abstract) {
		if p == object {
			return true
		}
	}
	return false
}

// FieldOf looks a field up on an object or interface type (incl. __typename).
func (s *Schema) FieldOf(typeName, field string) *FieldDef {
	if field == "__typename" {
		return &FieldDef{Name: "__typename", Type: NonNull(Named("String"))}
	}
	t := s.Type(typeName)
	if t == nil {
		return nil
	}
	return t.Field(field)
}

// F is a compact field constructor: F("f(x:Int=7,y:E):String").
func F(spec string) *FieldDef {
	name, rest := spec, ""
	args := ""
	if i := strings.IndexByte(spec, '('); i >= 0 {
		j := strings.LastIndexByte(spec, ')')
		name, args, rest = spec[:i], spec[i+1:j], spec[j+1:]
	} else {
		i := strings.IndexByte(spec, ':')
		name, rest = spec[:i], spec[i:]
	}
	rest = strings.TrimPrefix(strings.TrimSpace(rest), ":")
	f := &FieldDef{Name: strings.TrimSpace(name), Type: ParseType(rest)}
	if args != "" {
		for _, a := range strings.Split(args, ",") {
			f.Args = append(f.Args, A(a))
		}
	}
	return f
}

// A is a compact argument / input field constructor: A("x:Int=7").
func A(spec string) *ArgDef {
	spec = strings.TrimSpace(spec)
	def := ""
	if i := strings.IndexByte(spec, '='); i >= 0 {
		spec, def = strings.TrimSpace(spec[:i]), strings.TrimSpace(spec[i+1:])
	}
	i := strings.IndexByte(spec, ':')
	a := &ArgDef{Name: strings.TrimSpace(spec[:i]), Type: ParseType(spec[i+1:])}
	if def != "" {
		v := ParseValue(def)
		a.Default = &v
	}
	return a
}

// SDL renders the schema in the type-system language (for messages and samples).
func (s *Schema) SDL() string {
	var b strings.Builder
	names := append([]string{}, s.Order...)
	sort.Strings(names)
	for _, n := range names {
		t := s.Types[n]
		switch t.Kind {
		case KScalar:
			fmt.Fprintf(&b, "scalar %s ", n)
		case KObject, KInterface:
			kw := "type"
			if t.Kind == KInterface {
				kw = "interface"
			}
			fmt.Fprintf(&b, "%s %s", kw, n)
			if len(t.Interfaces) > 0 {
				fmt.Fprintf(&b, " implements %s", strings.Join(t.Interfaces, " & "))
			}
			b.WriteString("{")
			for _, f := range t.Fields {
				b.WriteString(f.Name)
				if len(f.Args) > 0 {
					b.WriteString("(")
					for i, a := range f.Args {
						if i > 0 {
							b.WriteString(",")
						}
						fmt.Fprintf(&b, "%s:%s", a.Name, a.Type)
						if a.Default != nil {
							b.WriteString("=" + a.Default.Render())
						}
					}
					b.WriteString(")")
				}
				fmt.Fprintf(&b, ":%s ", f.Type)
			}
			b.WriteString("} ")
		case KUnion:
			fmt.Fprintf(&b, "union %s=%s ", n, strings.Join(t.Members, "|"))
		case KEnum:
			var vs []string
			for _, v := range t.Values {
				vs = append(vs, v.Name)
			}
			fmt.Fprintf(&b, "enum %s{%s} ", n, strings.Join(vs, " "))
		case KInput:
			fmt.Fprintf(&b, "input %s{", n)
			for _, a := range t.Inputs {
				fmt.Fprintf(&b, "%s:%s", a.Name, a.Type)
				if a.Default != nil {
					b.WriteString("=" + a.Default.Render())
				}
				b.WriteString(" ")
			}
			b.WriteString("} ")
		}
	}
	return strings.TrimSpace(b.String())
}
