// Package c19 decides C19 (planning and validation work is polynomial in document size) by
// exhaustive evaluation of a deterministic cost function over scaled document families: for
// EVERY size n up to the bound (not a sample of sizes) the number of steps (function
// entries + loop iterations, counted by the instrumenter) of ValidateDocument and PlanQuery
// is measured, and the scale-free invariant steps(2n)/steps(n) <= 2^3 (+10%) is checked for
// every n >= 4 along every family and along pairwise products of families; planning must
// not depend on the number of implementers; execution plans only the runtime types it met.
package c19

import (
	"fmt"
	"sort"
	"strings"

	"github.com/graphql-go/graphql"
	"github.com/graphql-go/graphql/language/ast"
	"github.com/graphql-go/graphql/vstep"

	"verif/h/bridge"
	"verif/h/core"
	"verif/h/execx"
	"verif/h/gen"
	"verif/h/model"
	"verif/report"
)

func init() { core.Register("C19", &core.Check{Run: run, Replay: replay}) }

const hardLimit = 60000000 // a family member that needs more steps than this is reported at once

// schema: Node interface with m implementers T1..Tm; every type has next: Node, self: T1,
// id: String, f(in: R): String; input R { r: R, v: Int }
func schema(m int) *gen.Schema {
	s := &gen.Schema{Query: "Query"}
	s.Add(&gen.TypeDef{Kind: gen.KInput, Name: "R", Inputs: []*gen.ArgDef{gen.A("r:R"), gen.A("v:Int"), gen.A("l:[R]")}})
	s.Add(&gen.TypeDef{Kind: gen.KInterface, Name: "Node", Fields: []*gen.FieldDef{gen.F("next:Node"), gen.F("id:String"), gen.F("self:T1")}})
	for i := 1; i <= m; i++ {
		s.Add(&gen.TypeDef{Kind: gen.KObject, Name: fmt.Sprintf("T%d", i), Interfaces: []string{"Node"}, Fields: []*gen.FieldDef{
			gen.F("next:Node"), gen.F("id:String"), gen.F("self:T1"), gen.F("a:String"), gen.F("b:String"), gen.F("f(in:R):String")}})
	}
	s.Add(&gen.TypeDef{Kind: gen.KObject, Name: "Query", Fields: []*gen.FieldDef{gen.F("node:Node"), gen.F("t:T1"), gen.F("a:String"), gen.F("f(in:R):String")}})
	return s
}

type family struct {
	name string
	gen  func(n int) string
}

func rep(s string, n int) string { return strings.Repeat(s, n) }

var families = []family{
	{"abstract nesting depth n", func(n int) string {
		return "{ node " + rep("{ id next ", n) + "{ id }" + rep(" }", n) + " }"
	}},
	{"abstract nesting with inline fragments on two types, depth n", func(n int) string {
		return "{ node " + rep("{ ... on T1 { a } ... on T2 { b } next ", n) + "{ id }" + rep(" }", n) + " }"
	}},
	{"object nesting depth n", func(n int) string {
		return "{ t " + rep("{ a self ", n) + "{ a }" + rep(" }", n) + " }"
	}},
	{"fragment chain of length n", func(n int) string {
		var b strings.Builder
		b.WriteString("{ t { ...F1 } }")
		for i := 1; i <= n; i++ {
			next := "a"
			if i < n {
				next = fmt.Sprintf("...F%d", i+1)
			}
			fmt.Fprintf(&b, " fragment F%d on T1 { id %s }", i, next)
		}
		return b.String()
	}},
	{"fan of n fragments", func(n int) string {
		var b strings.Builder
		b.WriteString("{ t {")
		for i := 1; i <= n; i++ {
			fmt.Fprintf(&b, " ...F%d", i)
		}
		b.WriteString(" } }")
		for i := 1; i <= n; i++ {
			fmt.Fprintf(&b, " fragment F%d on T1 { a id }", i)
		}
		return b.String()
	}},
	{"one fragment spread at n sites", func(n int) string {
		return "{ t {" + rep(" ...F", n) + " self {" + rep(" ...F", n) + " } } } fragment F on T1 { a b id }"
	}},
	{"dense acyclic spread graph over n fragments", func(n int) string {
		var b strings.Builder
		b.WriteString("{ t { ...F1 } }")
		for i := 1; i <= n; i++ {
			fmt.Fprintf(&b, " fragment F%d on T1 { a", i)
			for j := i + 1; j <= n; j++ {
				fmt.Fprintf(&b, " ...F%d", j)
			}
			b.WriteString(" }")
		}
		return b.String()
	}},
	{"n repeated response keys", func(n int) string {
		return "{ t {" + rep(" a", n) + rep(" x: b", n) + " } }"
	}},
	{"nested input literal depth n", func(n int) string {
		return "{ f(in: " + rep("{v: 1, r: ", n) + "{v: 2}" + rep("}", n) + ") }"
	}},
	{"list of n input objects", func(n int) string {
		return "{ f(in: {l: [" + rep("{v: 1}, ", n) + "{v: 2}]}) }"
	}},
	{"same-key fields spreading one fragment per level, depth n", func(n int) string {
		var b strings.Builder
		b.WriteString("{ t { self { ...F1 } self { ...F1 } } }")
		for i := 1; i <= n; i++ {
			if i < n {
				fmt.Fprintf(&b, " fragment F%d on T1 { self { ...F%d } self { ...F%d } }", i, i+1, i+1)
			} else {
				fmt.Fprintf(&b, " fragment F%d on T1 { a }", i)
			}
		}
		return b.String()
	}},
	{"chain of n fragment diamonds under two object types", func(n int) string {
		var b strings.Builder
		b.WriteString("{ node { ... on T1 { ...D1 } ... on T2 { ...D1 } } }")
		for i := 1; i <= n; i++ {
			next := "id"
			if i < n {
				next = fmt.Sprintf("...D%d", i+1)
			}
			fmt.Fprintf(&b, " fragment D%d on Node { ...A%d ...B%d } fragment A%d on Node { %s } fragment B%d on Node { %s }", i, i, i, i, next, i, next)
		}
		return b.String()
	}},
	{"diamond chain entered from same-key fields under two object types", func(n int) string {
		var b strings.Builder
		b.WriteString("{ node { ... on T1 { x: self { ...D1 } } ... on T2 { x: self { ...D1 } } } }")
		for i := 1; i <= n; i++ {
			next := "id"
			if i < n {
				next = fmt.Sprintf("...D%d", i+1)
			}
			fmt.Fprintf(&b, " fragment D%d on T1 { id ...A%d ...B%d } fragment A%d on T1 { id %s } fragment B%d on T1 { id %s }", i, i, i, i, next, i, next)
		}
		return b.String()
	}},
	{"n variables used in nested directives", func(n int) string {
		var b strings.Builder
		b.WriteString("query(")
		for i := 1; i <= n; i++ {
			fmt.Fprintf(&b, "$v%d: Boolean! ", i)
		}
		b.WriteString(") { t ")
		for i := 1; i <= n; i++ {
			fmt.Fprintf(&b, "{ a @skip(if: $v%d) self ", i)
		}
		b.WriteString("{ a }" + rep(" }", n) + " }")
		return b.String()
	}},
}

func init() {
	families = append(families, family{"chain of n fragments, each spread twice behind variable-driven directives", func(n int) string {
		var b strings.Builder
		b.WriteString("query($g: Boolean!) { t { ...F1 @include(if: $g) ...F1 @skip(if: $g) } }")
		for i := 1; i <= n; i++ {
			next := "a"
			if i < n {
				next = fmt.Sprintf("...F%d @include(if: $g) ...F%d @skip(if: $g) self { ...F%d @include(if: $g) }", i+1, i+1, i+1)
			}
			fmt.Fprintf(&b, " fragment F%d on T1 { id %s }", i, next)
		}
		return b.String()
	}})
}

func init() {
	families = append(families, family{"ladder of n fragment triples reached under a type condition and without", func(n int) string {
		names, conds := []string{"L", "R", "M"}, []string{"T1", "T2", "T1"}
		var b strings.Builder
		b.WriteString("{ node { ...L1 ...R1 ...M1 } }")
		for i := 1; i <= n; i++ {
			for k, f := range names {
				if i == n {
					fmt.Fprintf(&b, " fragment %s%d on Node { id }", f, i)
					continue
				}
				sub := fmt.Sprintf("{ ...L%d ...R%d ...M%d }", i+1, i+1, i+1)
				fmt.Fprintf(&b, " fragment %s%d on Node { next %s ... on %s { next %s } }", f, i, sub, conds[k], sub)
			}
		}
		return b.String()
	}})
}

func init() {
	families = append(families, family{"two chains of n fragments compared first below same-key fields of two object types, then side by side", func(n int) string {
		var b strings.Builder
		b.WriteString("{ node { ... on T1 { o: self { ...P1 } } ... on T2 { o: self { ...Q1 } } } t { ...P1 ...Q1 } }")
		for i := 1; i <= n; i++ {
			if i == n {
				fmt.Fprintf(&b, " fragment P%d on T1 { id } fragment Q%d on T1 { a }", i, i)
				continue
			}
			fmt.Fprintf(&b, " fragment P%d on T1 { id ...P%d } fragment Q%d on T1 { a ...Q%d }", i, i+1, i, i+1)
		}
		return b.String()
	}})
	families = append(families, family{"two chains of n fragments through a field, compared side by side first and below same-key fields of two object types afterwards", func(n int) string {
		var b strings.Builder
		b.WriteString("{ t { ...P1 ...Q1 } node { ... on T1 { o: self { ...P1 } } ... on T2 { o: self { ...Q1 } } } }")
		for i := 1; i <= n; i++ {
			if i == n {
				fmt.Fprintf(&b, " fragment P%d on T1 { id } fragment Q%d on T1 { a }", i, i)
				continue
			}
			fmt.Fprintf(&b, " fragment P%d on T1 { id self { ...P%d } } fragment Q%d on T1 { a self { ...Q%d } }", i, i+1, i, i+1)
		}
		return b.String()
	}})
}

type hooks struct{ g *gen.Schema }

func (h hooks) OutcomeAt(string) model.Outcome { return model.OK }
func (h hooks) RuntimeType(path, declared string) string {
	return h.g.PossibleTypes(declared)[0]
}
func (h hooks) Resolve(typeName string, f *gen.FieldDef, p graphql.ResolveParams) (interface{}, error) {
	return model.RawValue(h.g, h, f.Type, model.PathString(p.Info.Path.AsArray())), nil
}
func (h hooks) ResolveType(abstract string, p graphql.ResolveTypeParams) string {
	if o, ok := p.Value.(*model.Obj); ok {
		return o.Type
	}
	return ""
}
func (h hooks) IsTypeOf(string, graphql.IsTypeOfParams) bool                        { return true }
func (h hooks) Subscribe(*gen.FieldDef, graphql.ResolveParams) (interface{}, error) { return nil, nil }

type meas struct {
	validate, plan, exec uint64
	valid          bool
	err            string
}

func measure(b *bridge.Built, text string) meas {
	doc, perr := execx.Parse(text)
	if perr != nil {
		return meas{err: "family member does not parse: " + perr.Error()}
	}
	var m meas
	func() {
		defer func() {
			if r := recover(); r != nil {
				m.err = fmt.Sprintf("ValidateDocument: %v", r)
			}
		}()
		vstep.Reset(hardLimit)
		vr := graphql.ValidateDocument(&b.Schema, doc, nil)
		m.validate = vstep.N
		m.valid = vr.IsValid
		if !vr.IsValid {
			m.err = "family member is invalid: " + vr.Errors[0].Message
		}
	}()
	if vstep.Blown {
		m.err = fmt.Sprintf("ValidateDocument needs more than %d steps", hardLimit)
	}
	if m.err != "" {
		vstep.Reset(0)
		return m
	}
	func() {
		defer func() {
			if r := recover(); r != nil {
				m.err = fmt.Sprintf("PlanQuery: %v", r)
			}
		}()
		vstep.Reset(hardLimit)
		pl, err := graphql.PlanQuery(&b.Schema, doc, "")
		if err != nil {
			m.err = "PlanQuery: " + err.Error()
		}
		m.plan = vstep.N
		if err == nil && strings.Contains(text, "$") {
			// selections gated by variables are collected again per request: that work counts
			// (the fragment chains resolve to a bounded number of objects, so the response
			// itself is small)
			vars := map[string]interface{}{}
			for _, def := range doc.Definitions {
				if op, ok := def.(*ast.OperationDefinition); ok {
					for _, vd := range op.VariableDefinitions {
						vars[vd.Variable.Name.Value] = true
					}
				}
			}
			vstep.Reset(hardLimit)
			r := graphql.ExecutePlan(pl, graphql.ExecuteParams{Schema: b.Schema, Args: vars})
			m.exec = vstep.N
			if len(r.Errors) > 0 && !vstep.Blown {
				m.err = "ExecutePlan: " + r.Errors[0].Message
			}
		}
	}()
	if vstep.Blown {
		m.err = fmt.Sprintf("PlanQuery or ExecutePlan needs more than %d steps", hardLimit)
	}
	vstep.Reset(0)
	return m
}

// growth checks steps(2n)/steps(n) <= 8.8 for all n >= 4 with 2n <= N.
func growth(what string, steps []uint64) string {
	for n := 4; 2*n < len(steps); n++ {
		a, b := steps[n], steps[2*n]
		if a == 0 {
			continue
		}
		if float64(b) > 8.8*float64(a) {
			return fmt.Sprintf("%s: steps(%d) = %d but steps(%d) = %d: more than cubic growth (ratio %.1f)", what, n, a, 2*n, b, float64(b)/float64(a))
		}
	}
	return ""
}

func run(c *core.Ctx) {
	N := c.Pick(16, 32)
	c.R.Rule = "case = (family of documents scaled by n, every n = 1..N; pairwise products of families at n <= N/2; number of implementers m in {2, 64}); cost = steps counted by the instrumenter inside ValidateDocument and PlanQuery; oracle = steps(2n)/steps(n) <= 8.8 for every n >= 4, steps(plan, m=64) <= 1.25 steps(plan, m=2), planned runtime types after execution = runtime types met; non-trivial = all (every case measures the real functions)"
	c.R.Assumptions = []string{"a bounded family cannot prove an asymptotic bound; it refutes every exponential or implementer-dependent regression visible at n <= N", "step counter = function entries + loop iterations inserted by the instrumenter (deterministic, hardware independent)", "Go toolchain"}
	c.R.Bounds["N"] = N
	c.R.Bounds["families"] = len(families)
	g2, g64 := schema(2), schema(64)
	b2, err := bridge.Build(g2, bridge.Options{})
	if err != nil {
		c.R.HarnessError("schema: %v", err)
		return
	}
	b2.H = hooks{g2}
	b64, err := bridge.Build(g64, bridge.Options{})
	if err != nil {
		c.R.HarnessError("schema: %v", err)
		return
	}
	b64.H = hooks{g64}
	idx := 0
	series := func(name string, gen func(n int) string, maxN int) {
		if !c.Mine(idx) {
			idx++
			return
		}
		idx++
		val := make([]uint64, maxN+1)
		pl := make([]uint64, maxN+1)
		ex := make([]uint64, maxN+1)
		for n := 1; n <= maxN; n++ {
			text := gen(n)
			m := measure(b2, text)
			c.R.Evaluations++
			c.R.States++
			c.R.Transitions += m.validate + m.plan
			c.R.Nontriv(report.H(name + fmt.Sprint(n)))
			if m.err != "" {
				sev := "HARNESS "
				if strings.Contains(m.err, "needs more than") {
					sev = ""
				}
				if sev == "" {
					c.Mismatch("", name+" blowup", fmt.Sprintf("family %q at n=%d: %s", name, n, m.err), map[string]interface{}{"family": name, "n": n})
				} else {
					c.R.HarnessError("family %q at n=%d: %s (%s)", name, n, m.err, text)
				}
				return
			}
			val[n], pl[n], ex[n] = m.validate, m.plan, m.exec
			// implementers must not matter for planning
			if n == maxN || n == maxN/2 {
				m64 := measure(b64, text)
				c.R.Evaluations++
				if m64.err == "" && float64(m64.plan) > 1.25*float64(m.plan)+50 {
					c.Mismatch("", name+" implementers", fmt.Sprintf("family %q at n=%d: PlanQuery takes %d steps with 2 implementers and %d with 64", name, n, m.plan, m64.plan), map[string]interface{}{"family": name, "n": n})
				}
			}
		}
		if c.R.WantSample() {
			c.R.Sample(map[string]interface{}{"family": name, "validate_steps": val[1:], "plan_steps": pl[1:], "document_at_n=3": gen(3)})
		}
		if d := growth("ValidateDocument", val); d != "" {
			c.Mismatch("", name+" validate growth", fmt.Sprintf("family %q: %s (series %v)", name, d, val[1:]), map[string]interface{}{"family": name})
		}
		if d := growth("PlanQuery", pl); d != "" {
			c.Mismatch("", name+" plan growth", fmt.Sprintf("family %q: %s (series %v)", name, d, pl[1:]), map[string]interface{}{"family": name})
		}
		if d := growth("ExecutePlan (per-request planning included)", ex); d != "" {
			c.Mismatch("", name+" execute growth", fmt.Sprintf("family %q: %s (series %v)", name, d, ex[1:]), map[string]interface{}{"family": name})
		}
	}
	for _, f := range families {
		series(f.name, f.gen, N)
	}
	// pairwise products: the document of family A at size n placed next to / inside B's
	for i, fa := range families {
		for j, fb := range families {
			if i >= j {
				continue
			}
			fa, fb := fa, fb
			series(fa.name+" x "+fb.name, func(n int) string { return combine(fa.gen(n), fb.gen(n)) }, N/2)
		}
	}
	// lazy planning: execute and compare planned runtime types with those met
	if c.Shard == 0 {
		for _, q := range []string{families[0].gen(4), families[1].gen(3), "{ node { next { ... on T1 { self { next { id } } } } } }"} {
			doc, _ := execx.Parse(q)
			plan, err := graphql.PlanQuery(&b64.Schema, doc, "")
			if err != nil {
				c.R.HarnessError("lazy planning: %v", err)
				continue
			}
			graphql.ExecutePlan(plan, graphql.ExecuteParams{Schema: b64.Schema})
			c.R.Evaluations++
			alts := graphql.VerifPlannedAlternatives(plan)
			var keys []string
			for k := range alts {
				keys = append(keys, k)
			}
			sort.Strings(keys)
			for _, k := range keys {
				for _, t := range alts[k] {
					if t != "T1" {
						c.Mismatch("", "lazy planning", fmt.Sprintf("query %q: runtime type %s was planned for %s although only T1 was ever resolved", q, t, k), map[string]interface{}{"family": "lazy", "q": q})
					}
				}
			}
		}
	}
}

// combine merges two single-operation documents: selections of b's operation are appended
// to a's (fragment and variable names are made disjoint).
func combine(a, b string) string {
	b = strings.NewReplacer("F", "G", "...D", "...E", "fragment D", "fragment E", "...A", "...AA", "fragment A", "fragment AA", "...B", "...BB", "fragment B", "fragment BB", "...P", "...PP", "fragment P", "fragment PP", "...Q", "...QQ", "fragment Q", "fragment QQ", "$v", "$w").Replace(b)
	b = strings.Replace(b, "{ f(in:", "{ fb: f(in:", 1)
	ha, ra := splitOp(a)
	hb, rb := splitOp(b)
	head := "query"
	vars := ""
	for _, h := range []string{ha, hb} {
		if i := strings.Index(h, "("); i >= 0 {
			vars += strings.TrimSuffix(strings.TrimSpace(h[i+1:]), ")") + " "
		}
	}
	if vars != "" {
		head += "(" + vars + ")"
	}
	selA, fragsA := splitBody(ra)
	selB, fragsB := splitBody(rb)
	// alias b's top-level selections away from a's by wrapping them in an inline fragment
	return head + " { " + selA + " ... on Query { " + selB + " } } " + fragsA + " " + fragsB
}

func splitOp(doc string) (head, rest string) {
	i := strings.Index(doc, "{")
	return strings.TrimSpace(doc[:i]), doc[i:]
}

// splitBody returns the inside of the first balanced {...} and what follows it.
func splitBody(s string) (inner, after string) {
	depth := 0
	for i, ch := range s {
		switch ch {
		case '{':
			depth++
		case '}':
			depth--
			if depth == 0 {
				return strings.TrimSpace(s[1:i]), strings.TrimSpace(s[i+1:])
			}
		}
	}
	return s, ""
}

func replay(c *core.Ctx, p map[string]interface{}) (bool, string) {
	return false, fmt.Sprintf("cost series of family %v: re-run `bin/verif check C19` (deterministic)", p["family"])
}
