// Package c03 decides C03 (the parser accepts exactly the grammar and builds its AST):
// viable-prefix depth-first enumeration of token sequences over several alphabets, and of
// raw byte strings; each text is parsed by the library and by the independent model
// parser; acceptance, the whole tree (kinds, names, values, order), every node's location
// and the immutability of the source are compared.
package c03

import (
	"bytes"
	"fmt"
	"strings"

	"github.com/graphql-go/graphql/language/lexer"
	"github.com/graphql-go/graphql/language/source"

	"verif/h/astx"
	"verif/h/core"
	"verif/h/langx"
	"verif/h/msyntax"
	"verif/report"
)

func init() { core.Register("C03", &core.Check{Run: run, Replay: replay}) }

// Judge compares library and model on one text. It returns a mismatch description (or ""),
// a finding id guess, and whether the text is still a viable prefix for either parser.
func Judge(text []byte) (bad, fid string, extend bool, accepted bool) {
	orig := append([]byte{}, text...)
	doc, lv, pan := langx.Lib(text)
	mn, mv, _ := langx.Model(orig)
	if pan != nil {
		return fmt.Sprintf("parser panicked: %v", pan), "", false, false
	}
	if !bytes.Equal(text, orig) {
		bad = fmt.Sprintf("parsing modified the source: now %q", text)
		if bytes.Contains(orig, []byte(`\"""`)) {
			fid = "C03-F4"
		}
		copy(text, orig)
	}
	extend = lv.OK || lv.AtEOF || mv.OK || mv.AtEOF
	if mv.Unspec {
		return bad, fid, extend, lv.OK
	}
	if bad != "" {
		return bad, fid, extend, lv.OK
	}
	defer func() {
		// known finding C03-F2 (code-point offsets of Name tokens used as byte offsets):
		// attributed only when the model with that defect's emulation reproduces the
		// library's verdict and tree exactly
		if bad != "" && fid == "" && hasMultiByte(orig) {
			en, perr := msyntax.ParseEmuRuneNames(orig)
			var lerr *msyntax.Error
			emuOK := lerr == nil && perr == nil
			if emuOK == lv.OK && (!emuOK || astx.DumpCanon(doc, true) == en.Dump(true)) {
				fid = "C03-F2"
			}
		}
	}()
	switch {
	case lv.OK && !mv.OK:
		return fmt.Sprintf("accepted although not derivable from the grammar (%s at byte %d)", mv.Msg, mv.Pos), classifyAccept(string(orig), mv), extend, true
	case !lv.OK && mv.OK:
		return fmt.Sprintf("rejected although derivable from the grammar: %s", firstLine(lv.Msg)), classifyReject(string(orig)), extend, false
	case lv.OK && mv.OK:
		got, want := astx.DumpCanon(doc, true), mn.Dump(true)
		if got != want {
			if astx.DumpCanon(doc, false) == mn.Dump(false) {
				return fmt.Sprintf("node locations differ: library %s, grammar %s", got, want), classifyTree(string(orig)), extend, true
			}
			return fmt.Sprintf("tree differs: library %s, grammar %s", got, want), classifyTree(string(orig)), extend, true
		}
	}
	return "", "", extend, lv.OK
}

func hasMultiByte(b []byte) bool {
	for _, c := range b {
		if c >= 0x80 {
			return true
		}
	}
	return false
}

func firstLine(s string) string {
	if i := strings.IndexByte(s, '\n'); i >= 0 {
		return s[:i]
	}
	return s
}

func classifyAccept(text string, mv langx.Verdict) string {
	switch {
	case strings.Contains(text, `"on"`) || strings.Contains(text, `"implements"`):
		return "C03-F3"
	}
	return ""
}
func classifyReject(text string) string { return "" }
func classifyTree(text string) string   { return "" }

func sigOf(bad, text string) string {
	f := strings.Fields(bad)
	if len(f) > 5 {
		f = f[:5]
	}
	return strings.Join(f, " ")
}

func run(c *core.Ctx) {
	c.R.Rule = "case = a text: (a) every token sequence over each alphabet explored by viable-prefix DFS (a prefix is extended while the model OR the library still considers it viable), (a') every sequence up to 4 tokens over the full alphabet without pruning, (e) every text within two token edits (delete / replace / insert / adjacent swap over the full token alphabet; the second edit within a window after the first) of 18 long grammar-derived sentences that span all productions, (b) every byte string up to the bound over a 24-byte alphabet (quotes, backslash, #, CR, LF, comma, dot, digits, e, u, braces, the bytes of e-acute and of the BOM, tab, BEL) alone and inside `{ }`; non-trivial = accepted by library or model; distinct texts"
	c.R.Assumptions = []string{"M-syntax (verif/h/msyntax) is the target grammar of DESIGN.md appendix A", "tokens are separated by single spaces in (a); layouts are varied by C18", "Go toolchain"}
	qi := 0
	if !c.Quick() {
		qi = 1
	}
	visitText := func(kind string, toks []string, text []byte) bool {
		bad, fid, ext, acc := Judge(text)
		if langx.Quiet {
			return ext
		}
		c.R.Evaluations++
		c.R.States++
		c.R.Transitions += uint64(len(toks))
		c.R.Count("texts_"+kind, 1)
		if acc {
			c.R.Nontriv(report.H(string(text)))
			c.R.Count("accepted_"+kind, 1)
			if c.R.WantSample() {
				c.R.Sample(map[string]interface{}{"alphabet": kind, "text": string(text), "accepted": true})
			}
		}
		if bad != "" {
			c.Mismatch(fid, sigOf(bad, string(text)), fmt.Sprintf("%q: %s", text, bad), map[string]interface{}{"text": string(text)})
		}
		return ext
	}
	// (c) literal payloads: every short content of a block string and of a string
	expired := false
	payload := func(kind string, alphabet []string, maxLen int, open, close string) {
		buf := []string{}
		idx := 0
		var rec func()
		rec = func() {
			if idx&1023 == 0 && c.Expired() {
				expired = true
			}
			if expired {
				return
			}
			if c.Mine(idx) {
				text := []byte("{ a(x: " + open + strings.Join(buf, "") + close + ") }")
				visitText(kind, buf, text)
			}
			idx++
			if len(buf) >= maxLen {
				return
			}
			for _, a := range alphabet {
				buf = append(buf, a)
				rec()
				buf = buf[:len(buf)-1]
			}
		}
		rec()
	}
	pl := c.Pick(6, 7)
	c.R.Bounds["literal_payload_length"] = pl
	payload("block-string-payload", []string{"a", " ", "\n", "\r", `"`, `\`, "\t", "\u00e9"}, pl, `"""`, `"""`)
	// (d) tables: every \uXXXX over 8 hex digits of every case, every \c escape, numeric edge forms
	idx := 0
	table := func(kind, text string) {
		if c.Mine(idx) {
			visitText(kind, nil, []byte(text))
		}
		idx++
	}
	hex := []string{"0", "8", "9", "a", "f", "A", "F", "d", "g", "G"}
	for _, h1 := range hex {
		for _, h2 := range hex {
			for _, h3 := range hex {
				for _, h4 := range hex {
					table("unicode-escapes", `{ a(x: "\u`+h1+h2+h3+h4+`") }`)
				}
			}
		}
	}
	for ch := 0x20; ch < 0x7f; ch++ {
		table("simple-escapes", `{ a(x: "q\`+string(rune(ch))+`z") }`)
	}
	for _, sign := range []string{"", "-", "+", "--"} {
		for _, ip := range []string{"0", "1", "10", "01", "00", "", "9"} {
			for _, fp := range []string{"", ".", ".0", ".5", ".05", "..5"} {
				for _, ep := range []string{"", "e1", "E+1", "e-1", "e", "e+", "E", "e1.5", "e01"} {
					table("numbers", "{ a(x: "+sign+ip+fp+ep+") }")
					table("numbers", "{ a(x: "+sign+ip+fp+ep+"a) }")
				}
			}
		}
	}
	payload("string-payload", []string{"a", `\`, `"`, "u", "0", "F", "n", "\u00e9", "/", "\t", "d", "8"}, c.Pick(5, 6), `"`, `"`)
	// (b) bytes: token streams of lexer and model, then the parser on `{ bytes }`
	maxBytes := c.Pick(5, 6)
	c.R.Bounds["bytes"] = maxBytes
	bytesUpTo := func(minLen, maxLen int) {
		langx.Bytes(maxLen, c.Shard, c.NShards, func(text []byte) {
			if len(text) < minLen {
				return
			}
			if bad, fid := JudgeLex(text); bad != "" {
				c.Mismatch(fid, "lex "+sigOf(bad, ""), fmt.Sprintf("lexing %q: %s", text, bad), map[string]interface{}{"text": string(text), "lex": true})
			}
			c.R.Evaluations++
			c.R.States++
			c.R.Transitions += uint64(len(text))
			wrapped := append(append([]byte("{ "), text...), " }"...)
			visitText("bytes-in-braces", nil, wrapped)
			// also as the content of a string argument and after a field
			if len(text) < maxBytes || !c.Quick() {
				visitText("bytes-after-field", nil, append(append([]byte("{ a "), text...), " b }"...))
			}
		})
	}
	// all strings one byte shorter than the bound first; the longest ones at the very end
	bytesUpTo(0, maxBytes-1)
	// (b') character units: multi-byte characters as single units (valid UTF-8 only)
	maxUnits := c.Pick(5, 6)
	c.R.Bounds["character_units"] = maxUnits
	langx.Units(maxUnits, c.Shard, c.NShards, func(text []byte) {
		if bad, fid := JudgeLex(text); bad != "" {
			c.Mismatch(fid, "lex "+sigOf(bad, ""), fmt.Sprintf("lexing %q: %s", text, bad), map[string]interface{}{"text": string(text), "lex": true})
		}
		visitText("units-in-braces", nil, append(append([]byte("{ a "), text...), " b }"...))
	})
	// (e) neighbourhoods of long sentences: every single token edit everywhere, every pair
	// of edits within a window
	if !c.Expired() {
		window := c.Pick(1, 3)
		alpha2 := langx.ReducedEditAlphabet[:4]
		if !c.Quick() {
			alpha2 = langx.EditAlphabet
		}
		c.R.Bounds["corpus_sentences"] = len(langx.Corpus)
		c.R.Bounds["corpus_edit_distance"] = 2
		c.R.Bounds["corpus_second_edit_window"] = window
		seedOK := map[int]bool{}
		langx.Neighbourhood(window, c.Shard, c.NShards, alpha2, func(seed int, toks []string, text []byte) {
			visitText("corpus-edits", toks, text)
		})
		for si, s := range langx.Corpus {
			if _, mv, _ := langx.Model([]byte(s)); mv.OK {
				seedOK[si] = true
			}
		}
		if len(seedOK) != len(langx.Corpus) {
			panic(fmt.Sprintf("corpus: only %d of %d seed sentences are derivable from the model grammar", len(seedOK), len(langx.Corpus)))
		}
	}
	// (a') unpruned, short
	unpruned := c.Pick(3, 4)
	c.R.Bounds["unpruned_tokens_full_alphabet"] = unpruned
	langx.TokenDFS(langx.Alphabets[0], unpruned, c.Shard, c.NShards, func(toks []string, text []byte) bool {
		visitText("full-unpruned", toks, text)
		return true
	})
	// (a) viable-prefix DFS
	for _, a := range langx.Alphabets {
		if c.Expired() {
			return
		}
		a := a
		c.R.Bounds["viable_prefix_tokens_"+a.Name] = a.MaxLen[qi]
		langx.TokenDFS(a, a.MaxLen[qi], c.Shard, c.NShards, func(toks []string, text []byte) bool {
			if len(toks)%4 == 0 && c.Expired() {
				return false
			}
			return visitText(a.Name, toks, text)
		})
	}
	// (b, continued) the byte strings of maximal length
	if !c.Expired() {
		bytesUpTo(maxBytes, maxBytes)
	}
}

// JudgeLex compares the library's token stream with the model's.
func JudgeLex(text []byte) (bad, fid string) {
	orig := append([]byte{}, text...)
	mtoks, merr := msyntax.Lex(orig)
	var ltoks []lexer.Token
	var lerr error
	var pan interface{}
	func() {
		defer func() { pan = recover() }()
		lx := lexer.Lex(source.NewSource(&source.Source{Body: text}))
		pos := 0
		for i := 0; i < len(text)+2; i++ {
			t, err := lx(pos)
			if err != nil {
				lerr = err
				return
			}
			ltoks = append(ltoks, t)
			if t.Kind == lexer.EOF {
				return
			}
			if t.End <= pos && i > 0 {
				lerr = fmt.Errorf("lexer does not advance at %d", pos)
				return
			}
			pos = t.End
		}
	}()
	if pan != nil {
		return fmt.Sprintf("lexer panicked: %v", pan), ""
	}
	if !bytes.Equal(text, orig) {
		copy(text, orig)
		return "lexing modified the source", "C03-F4"
	}
	if merr != nil && merr.Unspecified {
		return "", ""
	}
	defer func() {
		if bad != "" && fid == "" && hasMultiByte(orig) {
			etoks, eerr := msyntax.LexEmuRuneNames(orig)
			if (eerr == nil) == (lerr == nil) && (eerr != nil || sameTokens(etoks, ltoks)) {
				fid = "C03-F2"
			}
		}
	}()
	if (merr == nil) != (lerr == nil) {
		if merr == nil {
			return fmt.Sprintf("lexer rejects a valid token stream: %v", firstLine(lerr.Error())), ""
		}
		return fmt.Sprintf("lexer accepts although %s at byte %d (tokens %v)", merr.Msg, merr.Pos, ltoks), ""
	}
	if merr != nil {
		return "", ""
	}
	if !sameTokens(mtoks, ltoks) {
		return fmt.Sprintf("token stream differs: library %+v, grammar %+v", ltoks, mtoks), ""
	}
	return "", ""
}

func sameTokens(mtoks []msyntax.Token, ltoks []lexer.Token) bool {
	if len(mtoks) != len(ltoks) {
		return false
	}
	for i := range mtoks {
		m, l := mtoks[i], ltoks[i]
		ok := m.Start == l.Start && m.End == l.End
		switch m.Kind {
		case msyntax.EOF:
			ok = ok && l.Kind == lexer.EOF
		case msyntax.Punct:
			ok = ok && l.Kind.String() == m.Text
		case msyntax.Name:
			ok = ok && l.Kind == lexer.NAME && l.Value == m.Text
		case msyntax.Int:
			ok = ok && l.Kind == lexer.INT && l.Value == m.Text
		case msyntax.Float:
			ok = ok && l.Kind == lexer.FLOAT && l.Value == m.Text
		case msyntax.String:
			ok = ok && l.Kind == lexer.STRING && l.Value == m.Value
		case msyntax.BlockString:
			ok = ok && l.Kind == lexer.BLOCK_STRING && l.Value == m.Value
		}
		if !ok {
			return false
		}
	}
	return true
}

func replay(c *core.Ctx, p map[string]interface{}) (bool, string) {
	text, _ := p["text"].(string)
	if lx, _ := p["lex"].(bool); lx {
		if bad, _ := JudgeLex([]byte(text)); bad != "" {
			return false, fmt.Sprintf("lexing %q: %s", text, bad)
		}
		return true, "token stream equals the grammar's"
	}
	if bad, _, _, _ := Judge([]byte(text)); bad != "" {
		return false, fmt.Sprintf("%q: %s", text, bad)
	}
	return true, "library and grammar agree"
}
