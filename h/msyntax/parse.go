package msyntax

import (
	"fmt"
	"sort"
	"strconv"
	"strings"
)

// Node is a tree node of the model parser. Fields hold *Node, []*Node, string or bool.
type Node struct {
	Kind       string
	Start, End int
	Fields     map[string]interface{}
}

func (n *Node) set(k string, v interface{}) *Node {
	if n.Fields == nil {
		n.Fields = map[string]interface{}{}
	}
	n.Fields[k] = v
	return n
}

// Dump renders the tree in the canonical form of astx.DumpCanon: fields sorted by name,
// empty lists / nil children / empty strings (except Value) omitted.
func (n *Node) Dump(loc bool) string {
	var b strings.Builder
	n.dump(&b, loc)
	return b.String()
}

func (n *Node) dump(b *strings.Builder, loc bool) {
	b.WriteString("(" + n.Kind)
	if loc {
		fmt.Fprintf(b, " @%d:%d", n.Start, n.End)
	}
	keys := make([]string, 0, len(n.Fields))
	for k := range n.Fields {
		keys = append(keys, k)
	}
	sort.Strings(keys)
	for _, k := range keys {
		switch v := n.Fields[k].(type) {
		case *Node:
			if v == nil {
				continue
			}
			b.WriteString(" " + k + ":")
			v.dump(b, loc)
		case []*Node:
			if len(v) == 0 {
				continue
			}
			b.WriteString(" " + k + ":[")
			for i, e := range v {
				if i > 0 {
					b.WriteString(" ")
				}
				e.dump(b, loc)
			}
			b.WriteString("]")
		case string:
			if v == "" && k != "Value" {
				continue
			}
			b.WriteString(" " + k + ":" + strconv.Quote(v))
		case bool:
			b.WriteString(" " + k + ":" + strconv.FormatBool(v))
		}
	}
	b.WriteString(")")
}

type parser struct {
	toks []Token
	i    int
	prev int // end of the last consumed token
	err  *Error
}

type bail struct{}

func (p *parser) tok() Token { return p.toks[p.i] }

func (p *parser) fail(msg string) {
	t := p.tok()
	p.err = &Error{Pos: t.Start, End: t.End, Msg: msg + ", found " + p.desc(t), AtEOF: t.Kind == EOF}
	panic(bail{})
}

func (p *parser) desc(t Token) string {
	if t.Kind == Punct || t.Kind == Name || t.Kind == Int || t.Kind == Float {
		return t.Kind.String() + " " + t.Text
	}
	return t.Kind.String()
}

func (p *parser) advance() Token {
	t := p.tok()
	p.prev = t.End
	p.i++
	return t
}

func (p *parser) isPunct(s string) bool { t := p.tok(); return t.Kind == Punct && t.Text == s }
func (p *parser) isName() bool          { return p.tok().Kind == Name }
func (p *parser) isKeyword(s string) bool {
	t := p.tok()
	return t.Kind == Name && t.Text == s
}

func (p *parser) expectPunct(s string) Token {
	if !p.isPunct(s) {
		p.fail("expected " + s)
	}
	return p.advance()
}

func (p *parser) skipPunct(s string) bool {
	if p.isPunct(s) {
		p.advance()
		return true
	}
	return false
}

func (p *parser) node(kind string, start int) *Node {
	return &Node{Kind: kind, Start: start, End: p.prev}
}

func (p *parser) name() *Node {
	if !p.isName() {
		p.fail("expected Name")
	}
	t := p.advance()
	return (&Node{Kind: "Name", Start: t.Start, End: t.End}).set("Value", t.Text)
}

// Parse parses a document. On success the tree is returned; otherwise the error carries
// the offset of the first token at which the text stops being a prefix of a document.
func Parse(src []byte) (doc *Node, perr *Error) {
	toks, lerr := Lex(src)
	if lerr != nil {
		if lerr.Unspecified {
			return nil, lerr
		}
		// the text stops being a prefix of a document at the EARLIER of the malformed
		// lexeme and the first token the grammar cannot continue with: parse what was
		// lexed before the lexical error
		prefix := append(append([]Token{}, toks...), Token{Kind: EOF, Start: lerr.Pos, End: lerr.Pos})
		if _, perr := ParseTokens(prefix); perr != nil && !perr.AtEOF && !perr.Unspecified {
			return nil, perr
		}
		return nil, lerr
	}
	return ParseTokens(toks)
}

// ParseEmuRuneNames parses with the C03-F2 emulation of the lexer (see LexEmuRuneNames),
// with the same "earliest error" rule as Parse.
func ParseEmuRuneNames(src []byte) (*Node, *Error) {
	toks, lerr := LexEmuRuneNames(src)
	if lerr != nil {
		if lerr.Unspecified {
			return nil, lerr
		}
		prefix := append(append([]Token{}, toks...), Token{Kind: EOF, Start: lerr.Pos, End: lerr.Pos})
		if _, perr := ParseTokens(prefix); perr != nil && !perr.AtEOF && !perr.Unspecified {
			return nil, perr
		}
		return nil, lerr
	}
	return ParseTokens(toks)
}

func ParseTokens(toks []Token) (doc *Node, perr *Error) {
	p := &parser{toks: toks}
	defer func() {
		if r := recover(); r != nil {
			if _, ok := r.(bail); ok {
				doc, perr = nil, p.err
				return
			}
			panic(r)
		}
	}()
	start := p.tok().Start
	var defs []*Node
	for p.tok().Kind != EOF {
		defs = append(defs, p.definition())
	}
	if len(defs) == 0 {
		// Document : Definition+ ; the library accepts the empty document, the spec does
		// not: not judged
		return nil, &Error{Pos: start, Msg: "empty document", AtEOF: true, Unspecified: true}
	}
	// the document node ends where the input ends (end of the EOF token), as in the
	// reference implementation the library ports
	d := &Node{Kind: "Document", Start: start, End: p.tok().End}
	d.set("Definitions", defs)
	return d, nil
}

func (p *parser) definition() *Node {
	t := p.tok()
	if p.isPunct("{") {
		return p.operation()
	}
	kw := t
	if t.Kind == String || t.Kind == BlockString {
		kw = p.toks[p.i+1]
		// a description must be followed by a type-system keyword
		if kw.Kind != Name {
			p.i++
			p.fail("expected a type system definition after the description")
		}
		switch kw.Text {
		case "scalar", "type", "interface", "union", "enum", "input", "directive":
		default:
			// the description alone is still a viable prefix; the keyword that follows
			// cannot continue it
			p.i++
			p.fail("expected a type system definition after the description")
		}
	}
	if kw.Kind != Name {
		p.fail("expected a definition")
	}
	switch kw.Text {
	case "query", "mutation", "subscription":
		return p.operation()
	case "fragment":
		return p.fragmentDef()
	case "schema":
		return p.schemaDef()
	case "scalar":
		return p.scalarDef()
	case "type":
		return p.objectDef()
	case "interface":
		return p.interfaceDef()
	case "union":
		return p.unionDef()
	case "enum":
		return p.enumDef()
	case "input":
		return p.inputDef()
	case "extend":
		return p.extendDef()
	case "directive":
		return p.directiveDef()
	}
	p.fail("unexpected name")
	return nil
}

func (p *parser) operation() *Node {
	start := p.tok().Start
	if p.isPunct("{") {
		ss := p.selectionSet()
		n := p.node("OperationDefinition", start)
		return n.set("Operation", "query").set("SelectionSet", ss)
	}
	op := p.advance().Text
	var name *Node
	if p.isName() {
		name = p.name()
	}
	vars := p.variableDefs()
	dirs := p.directives()
	ss := p.selectionSet()
	n := p.node("OperationDefinition", start)
	return n.set("Operation", op).set("Name", name).set("VariableDefinitions", vars).set("Directives", dirs).set("SelectionSet", ss)
}

func (p *parser) variableDefs() []*Node {
	if !p.isPunct("(") {
		return nil
	}
	p.advance()
	var out []*Node
	for {
		if len(out) > 0 && p.skipPunct(")") {
			return out
		}
		// VariableDefinition+
		start := p.tok().Start
		if !p.isPunct("$") {
			p.fail("expected $")
		}
		v := p.variable()
		p.expectPunct(":")
		t := p.typeRef()
		var def *Node
		if p.skipPunct("=") {
			def = p.value(true)
		}
		n := p.node("VariableDefinition", start)
		out = append(out, n.set("Variable", v).set("Type", t).set("DefaultValue", def))
	}
}

func (p *parser) variable() *Node {
	start := p.tok().Start
	p.expectPunct("$")
	nm := p.name()
	return p.node("Variable", start).set("Name", nm)
}

func (p *parser) typeRef() *Node {
	start := p.tok().Start
	var t *Node
	if p.skipPunct("[") {
		inner := p.typeRef()
		p.expectPunct("]")
		t = p.node("List", start).set("Type", inner)
	} else if p.isName() {
		nm := p.name()
		t = (&Node{Kind: "Named", Start: nm.Start, End: nm.End}).set("Name", nm)
	} else {
		p.fail("expected a type")
	}
	if p.skipPunct("!") {
		t = p.node("NonNull", start).set("Type", t)
	}
	return t
}

func (p *parser) named() *Node {
	nm := p.name()
	return (&Node{Kind: "Named", Start: nm.Start, End: nm.End}).set("Name", nm)
}

func (p *parser) selectionSet() *Node {
	start := p.tok().Start
	p.expectPunct("{")
	var sels []*Node
	for {
		if len(sels) > 0 && p.skipPunct("}") {
			break
		}
		sels = append(sels, p.selection())
	}
	return p.node("SelectionSet", start).set("Selections", sels)
}

func (p *parser) selection() *Node {
	start := p.tok().Start
	if p.skipPunct("...") {
		if p.isName() && !p.isKeyword("on") {
			nm := p.name()
			dirs := p.directives()
			return p.node("FragmentSpread", start).set("Name", nm).set("Directives", dirs)
		}
		var cond *Node
		if p.isKeyword("on") {
			p.advance()
			cond = p.named()
		}
		dirs := p.directives()
		ss := p.selectionSet()
		return p.node("InlineFragment", start).set("TypeCondition", cond).set("Directives", dirs).set("SelectionSet", ss)
	}
	if !p.isName() {
		p.fail("expected a selection")
	}
	nm := p.name()
	var alias *Node
	if p.skipPunct(":") {
		alias = nm
		nm = p.name()
	}
	args := p.arguments()
	dirs := p.directives()
	var ss *Node
	if p.isPunct("{") {
		ss = p.selectionSet()
	}
	return p.node("Field", start).set("Alias", alias).set("Name", nm).set("Arguments", args).set("Directives", dirs).set("SelectionSet", ss)
}

func (p *parser) arguments() []*Node {
	if !p.isPunct("(") {
		return nil
	}
	p.advance()
	var out []*Node
	for {
		if len(out) > 0 && p.skipPunct(")") {
			return out
		}
		start := p.tok().Start
		nm := p.name()
		p.expectPunct(":")
		v := p.value(false)
		out = append(out, p.node("Argument", start).set("Name", nm).set("Value", v))
	}
}

func (p *parser) directives() []*Node {
	var out []*Node
	for p.isPunct("@") {
		start := p.tok().Start
		p.advance()
		nm := p.name()
		args := p.arguments()
		out = append(out, p.node("Directive", start).set("Name", nm).set("Arguments", args))
	}
	return out
}

func (p *parser) value(isConst bool) *Node {
	t := p.tok()
	switch {
	case p.isPunct("["):
		p.advance()
		var items []*Node
		for !p.skipPunct("]") {
			items = append(items, p.value(isConst))
		}
		return p.node("ListValue", t.Start).set("Values", items)
	case p.isPunct("{"):
		p.advance()
		var fields []*Node
		for !p.skipPunct("}") {
			fs := p.tok().Start
			nm := p.name()
			p.expectPunct(":")
			v := p.value(isConst)
			fields = append(fields, p.node("ObjectField", fs).set("Name", nm).set("Value", v))
		}
		return p.node("ObjectValue", t.Start).set("Fields", fields)
	case t.Kind == Int:
		p.advance()
		return p.node("IntValue", t.Start).set("Value", t.Text)
	case t.Kind == Float:
		p.advance()
		return p.node("FloatValue", t.Start).set("Value", t.Text)
	case t.Kind == String || t.Kind == BlockString:
		p.advance()
		return p.node("StringValue", t.Start).set("Value", t.Value)
	case t.Kind == Name:
		switch t.Text {
		case "true", "false":
			p.advance()
			return p.node("BooleanValue", t.Start).set("Value", t.Text == "true")
		case "null":
			p.fail("null is not a value in this edition")
		}
		p.advance()
		return p.node("EnumValue", t.Start).set("Value", t.Text)
	case p.isPunct("$") && !isConst:
		return p.variable()
	}
	p.fail("expected a value")
	return nil
}

func (p *parser) fragmentDef() *Node {
	start := p.tok().Start
	p.advance() // fragment
	if p.isKeyword("on") {
		p.fail("fragment name must not be 'on'")
	}
	nm := p.name()
	if !p.isKeyword("on") {
		p.fail("expected 'on'")
	}
	p.advance()
	cond := p.named()
	dirs := p.directives()
	ss := p.selectionSet()
	return p.node("FragmentDefinition", start).set("Name", nm).set("TypeCondition", cond).set("Directives", dirs).set("SelectionSet", ss)
}

func (p *parser) description() *Node {
	t := p.tok()
	if t.Kind == String || t.Kind == BlockString {
		p.advance()
		return p.node("StringValue", t.Start).set("Value", t.Value)
	}
	return nil
}

func (p *parser) keyword(s string) {
	if !p.isKeyword(s) {
		p.fail("expected " + s)
	}
	p.advance()
}

func (p *parser) schemaDef() *Node {
	start := p.tok().Start
	p.keyword("schema")
	dirs := p.directives()
	p.expectPunct("{")
	var ops []*Node
	for {
		if len(ops) > 0 && p.skipPunct("}") {
			break
		}
		os := p.tok().Start
		if !(p.isKeyword("query") || p.isKeyword("mutation") || p.isKeyword("subscription")) {
			p.fail("expected an operation type")
		}
		op := p.advance().Text
		p.expectPunct(":")
		t := p.named()
		ops = append(ops, p.node("OperationTypeDefinition", os).set("Operation", op).set("Type", t))
	}
	return p.node("SchemaDefinition", start).set("Directives", dirs).set("OperationTypes", ops)
}

func (p *parser) scalarDef() *Node {
	start := p.tok().Start
	d := p.description()
	p.keyword("scalar")
	nm := p.name()
	dirs := p.directives()
	return p.node("ScalarDefinition", start).set("Description", d).set("Name", nm).set("Directives", dirs)
}

func (p *parser) objectDef() *Node {
	start := p.tok().Start
	d := p.description()
	p.keyword("type")
	nm := p.name()
	var ifaces []*Node
	if p.isKeyword("implements") {
		p.advance()
		p.skipPunct("&")
		for {
			ifaces = append(ifaces, p.named())
			if !p.skipPunct("&") {
				break
			}
		}
	}
	dirs := p.directives()
	p.expectPunct("{")
	var fields []*Node
	for !p.skipPunct("}") {
		fields = append(fields, p.fieldDef())
	}
	return p.node("ObjectDefinition", start).set("Description", d).set("Name", nm).set("Interfaces", ifaces).set("Directives", dirs).set("Fields", fields)
}

func (p *parser) fieldDef() *Node {
	start := p.tok().Start
	d := p.description()
	nm := p.name()
	args := p.argumentDefs()
	p.expectPunct(":")
	t := p.typeRef()
	dirs := p.directives()
	return p.node("FieldDefinition", start).set("Description", d).set("Name", nm).set("Arguments", args).set("Type", t).set("Directives", dirs)
}

func (p *parser) argumentDefs() []*Node {
	if !p.isPunct("(") {
		return nil
	}
	p.advance()
	var out []*Node
	for {
		if len(out) > 0 && p.skipPunct(")") {
			return out
		}
		out = append(out, p.inputValueDef())
	}
}

func (p *parser) inputValueDef() *Node {
	start := p.tok().Start
	d := p.description()
	nm := p.name()
	p.expectPunct(":")
	t := p.typeRef()
	var def *Node
	if p.skipPunct("=") {
		def = p.value(true)
	}
	dirs := p.directives()
	return p.node("InputValueDefinition", start).set("Description", d).set("Name", nm).set("Type", t).set("DefaultValue", def).set("Directives", dirs)
}

func (p *parser) interfaceDef() *Node {
	start := p.tok().Start
	d := p.description()
	p.keyword("interface")
	nm := p.name()
	dirs := p.directives()
	p.expectPunct("{")
	var fields []*Node
	for !p.skipPunct("}") {
		fields = append(fields, p.fieldDef())
	}
	return p.node("InterfaceDefinition", start).set("Description", d).set("Name", nm).set("Directives", dirs).set("Fields", fields)
}

func (p *parser) unionDef() *Node {
	start := p.tok().Start
	d := p.description()
	p.keyword("union")
	nm := p.name()
	dirs := p.directives()
	p.expectPunct("=")
	var types []*Node
	for {
		types = append(types, p.named())
		if !p.skipPunct("|") {
			break
		}
	}
	return p.node("UnionDefinition", start).set("Description", d).set("Name", nm).set("Directives", dirs).set("Types", types)
}

func (p *parser) enumDef() *Node {
	start := p.tok().Start
	d := p.description()
	p.keyword("enum")
	nm := p.name()
	dirs := p.directives()
	p.expectPunct("{")
	var vals []*Node
	for !p.skipPunct("}") {
		vs := p.tok().Start
		vd := p.description()
		vn := p.name()
		vdirs := p.directives()
		vals = append(vals, p.node("EnumValueDefinition", vs).set("Description", vd).set("Name", vn).set("Directives", vdirs))
	}
	return p.node("EnumDefinition", start).set("Description", d).set("Name", nm).set("Directives", dirs).set("Values", vals)
}

func (p *parser) inputDef() *Node {
	start := p.tok().Start
	d := p.description()
	p.keyword("input")
	nm := p.name()
	dirs := p.directives()
	p.expectPunct("{")
	var fields []*Node
	for !p.skipPunct("}") {
		fields = append(fields, p.inputValueDef())
	}
	return p.node("InputObjectDefinition", start).set("Description", d).set("Name", nm).set("Directives", dirs).set("Fields", fields)
}

func (p *parser) extendDef() *Node {
	start := p.tok().Start
	p.keyword("extend")
	def := p.objectDef()
	return p.node("TypeExtensionDefinition", start).set("Definition", def)
}

func (p *parser) directiveDef() *Node {
	start := p.tok().Start
	d := p.description()
	p.keyword("directive")
	p.expectPunct("@")
	nm := p.name()
	args := p.argumentDefs()
	p.keyword("on")
	var locs []*Node
	for {
		locs = append(locs, p.name())
		if !p.skipPunct("|") {
			break
		}
	}
	return p.node("DirectiveDefinition", start).set("Description", d).set("Name", nm).set("Arguments", args).set("Locations", locs)
}
