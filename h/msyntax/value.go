package msyntax

import (
	"fmt"

	"verif/h/gen"
)

// ParseValueText parses one GraphQL literal (const or with variables) into the generator's
// value type, decoding escapes and block strings.
func ParseValueText(text string) (gen.Value, error) {
	doc, err := Parse([]byte("{ a(x: " + text + ") }"))
	if err != nil {
		return gen.Value{}, fmt.Errorf("%s", err.Msg)
	}
	defs := doc.Fields["Definitions"].([]*Node)
	if len(defs) != 1 {
		return gen.Value{}, fmt.Errorf("not a single value")
	}
	sels := defs[0].Fields["SelectionSet"].(*Node).Fields["Selections"].([]*Node)
	if len(sels) != 1 {
		return gen.Value{}, fmt.Errorf("not a single value")
	}
	args, _ := sels[0].Fields["Arguments"].([]*Node)
	if len(args) != 1 {
		return gen.Value{}, fmt.Errorf("not a single value")
	}
	return toValue(args[0].Fields["Value"].(*Node)), nil
}

func toValue(n *Node) gen.Value {
	switch n.Kind {
	case "IntValue":
		return gen.Value{Kind: gen.VInt, S: n.Fields["Value"].(string)}
	case "FloatValue":
		return gen.Value{Kind: gen.VFloat, S: n.Fields["Value"].(string)}
	case "StringValue":
		return gen.Value{Kind: gen.VString, S: n.Fields["Value"].(string)}
	case "BooleanValue":
		return gen.Value{Kind: gen.VBool, B: n.Fields["Value"].(bool)}
	case "EnumValue":
		return gen.Value{Kind: gen.VEnum, S: n.Fields["Value"].(string)}
	case "Variable":
		return gen.Value{Kind: gen.VVar, S: n.Fields["Name"].(*Node).Fields["Value"].(string)}
	case "ListValue":
		v := gen.Value{Kind: gen.VList}
		items, _ := n.Fields["Values"].([]*Node)
		for _, it := range items {
			v.Items = append(v.Items, toValue(it))
		}
		return v
	case "ObjectValue":
		v := gen.Value{Kind: gen.VObject}
		fs, _ := n.Fields["Fields"].([]*Node)
		for _, f := range fs {
			v.Fields = append(v.Fields, gen.Arg{Name: f.Fields["Name"].(*Node).Fields["Value"].(string), Val: toValue(f.Fields["Value"].(*Node))})
		}
		return v
	}
	return gen.Value{}
}
