// Package msyntax is M-syntax of DESIGN.md: an independent tokenizer and LL(1) parser for
// the GraphQL language edition the library targets (DESIGN.md appendix A). It shares no
// code with the library; its trees are rendered in the same S-expression form as
// astx.Dump so that the two can be compared textually.
package msyntax

import (
	"fmt"
	"strings"
	"unicode/utf8"
)

type Kind int

const (
	EOF Kind = iota
	Punct
	Name
	Int
	Float
	String
	BlockString
)

var kindNames = []string{"EOF", "Punct", "Name", "Int", "Float", "String", "BlockString"}

func (k Kind) String() string { return kindNames[k] }

type Token struct {
	Kind  Kind
	Text  string // punctuator text, name, raw number
	Value string // decoded string / block string value
	Start int    // byte offsets
	End   int
}

// LexError is a lexical or syntactic error at a byte offset. Unspecified marks inputs the
// grammar does not define (invalid UTF-8, surrogate escapes): nothing is judged for them
// beyond crash-freedom.
type Error struct {
	From        int // start of the malformed lexeme (== Pos unless the error is inside a string or number)
	Pos         int // byte offset of the offending character / token
	End         int // end of the offending token (for "location within the token")
	Msg         string
	AtEOF       bool // the input is a viable prefix that ended too early
	Unspecified bool
}

func (e *Error) Error() string { return fmt.Sprintf("%s at %d", e.Msg, e.Pos) }

func isNameStart(c byte) bool { return c == '_' || (c >= 'a' && c <= 'z') || (c >= 'A' && c <= 'Z') }
func isDigit(c byte) bool     { return c >= '0' && c <= '9' }
func isNameCont(c byte) bool  { return isNameStart(c) || isDigit(c) }

// skipIgnored returns the offset of the next significant byte at or after i, and the
// number of code points skipped.
func skipIgnored(src []byte, i int) (int, int, *Error) {
	n := len(src)
	runes := 0
	for i < n {
		c := src[i]
		switch {
		case c == ' ' || c == '\t' || c == '\n' || c == '\r' || c == ',':
			i++
			runes++
			continue
		case c == 0xEF && i+2 < n && src[i+1] == 0xBB && src[i+2] == 0xBF: // BOM
			i += 3
			runes++
			continue
		case c == '#':
			i++
			runes++
			for i < n && src[i] != '\n' && src[i] != '\r' {
				r, w := utf8.DecodeRune(src[i:])
				if r < 0x20 && r != '\t' {
					return i, runes, &Error{Pos: i, End: i + w, Msg: "control character in comment"}
				}
				i += w
				runes++
			}
			continue
		}
		break
	}
	return i, runes, nil
}

// lexOne reads the token that starts at byte i (which must be a significant byte).
func lexOne(src []byte, i int) (Token, *Error) {
	n := len(src)
	c := src[i]
	switch {
	case strings.IndexByte("!$&():=@[]{|}", c) >= 0:
		return Token{Kind: Punct, Text: string(c), Start: i, End: i + 1}, nil
	case c == '.':
		if i+2 < n && src[i+1] == '.' && src[i+2] == '.' {
			return Token{Kind: Punct, Text: "...", Start: i, End: i + 3}, nil
		}
		return Token{}, &Error{Pos: i, End: i + 1, Msg: "unexpected '.'", AtEOF: i+1 >= n || (i+2 >= n && src[i+1] == '.')}
	case isNameStart(c):
		j := i + 1
		for j < n && isNameCont(src[j]) {
			j++
		}
		return Token{Kind: Name, Text: string(src[i:j]), Start: i, End: j}, nil
	case c == '-' || isDigit(c):
		t, err := lexNumber(src, i)
		if err != nil {
			err.From = i
		}
		return t, err
	case c == '"':
		var t Token
		var err *Error
		if i+2 < n && src[i+1] == '"' && src[i+2] == '"' {
			t, err = lexBlockString(src, i)
		} else {
			t, err = lexString(src, i)
		}
		if err != nil {
			err.From = i
		}
		return t, err
	}
	_, w := utf8.DecodeRune(src[i:])
	return Token{}, &Error{From: i, Pos: i, End: i + w, Msg: "unexpected character"}
}

// Lex tokenizes the whole input (the EOF token is included).
func Lex(src []byte) ([]Token, *Error) {
	if !utf8.Valid(src) {
		return nil, &Error{Pos: 0, Msg: "invalid UTF-8", Unspecified: true}
	}
	var toks []Token
	i := 0
	for {
		var err *Error
		if i, _, err = skipIgnored(src, i); err != nil {
			return toks, err
		}
		if i >= len(src) {
			toks = append(toks, Token{Kind: EOF, Start: len(src), End: len(src)})
			return toks, nil
		}
		t, err := lexOne(src, i)
		if err != nil {
			return toks, err
		}
		toks = append(toks, t)
		i = t.End
	}
}

// LexEmuRuneNames emulates the library defect C03-F2: Name tokens carry code-point based
// offsets (offset of the resume point plus code points skipped) while lexing resumes at
// the reported end of the previous token used as a BYTE offset. Used only to attribute a
// mismatch to that finding.
func LexEmuRuneNames(src []byte) ([]Token, *Error) {
	if !utf8.Valid(src) {
		return nil, &Error{Pos: 0, Msg: "invalid UTF-8", Unspecified: true}
	}
	var toks []Token
	resume := 0
	for steps := 0; steps < 4*len(src)+8; steps++ {
		i, runes, err := skipIgnored(src, resume)
		if err != nil {
			return toks, err
		}
		if i >= len(src) {
			toks = append(toks, Token{Kind: EOF, Start: i, End: i})
			return toks, nil
		}
		t, err := lexOne(src, i)
		if err != nil {
			return toks, err
		}
		if t.Kind == Name {
			rs := resume + runes
			t.Start, t.End = rs, rs+len(t.Text)
		}
		toks = append(toks, t)
		resume = t.End
	}
	return nil, &Error{Msg: "emulation does not terminate"}
}

func lexNumber(src []byte, start int) (Token, *Error) {
	i, n := start, len(src)
	digits := func() *Error {
		if i >= n {
			return &Error{Pos: i, End: i, Msg: "digit expected", AtEOF: true}
		}
		if !isDigit(src[i]) {
			_, w := utf8.DecodeRune(src[i:])
			return &Error{Pos: i, End: i + w, Msg: "digit expected"}
		}
		for i < n && isDigit(src[i]) {
			i++
		}
		return nil
	}
	if src[i] == '-' {
		i++
	}
	if i < n && src[i] == '0' {
		i++
		if i < n && isDigit(src[i]) {
			return Token{}, &Error{Pos: i, End: i + 1, Msg: "digit after 0"}
		}
	} else if err := digits(); err != nil {
		return Token{}, err
	}
	isFloat := false
	if i < n && src[i] == '.' {
		isFloat = true
		i++
		if err := digits(); err != nil {
			return Token{}, err
		}
	}
	if i < n && (src[i] == 'e' || src[i] == 'E') {
		isFloat = true
		i++
		if i < n && (src[i] == '+' || src[i] == '-') {
			i++
		}
		if err := digits(); err != nil {
			return Token{}, err
		}
	}
	k := Int
	if isFloat {
		k = Float
	}
	return Token{Kind: k, Text: string(src[start:i]), Start: start, End: i}, nil
}

func hexVal(c byte) int {
	switch {
	case c >= '0' && c <= '9':
		return int(c - '0')
	case c >= 'a' && c <= 'f':
		return int(c-'a') + 10
	case c >= 'A' && c <= 'F':
		return int(c-'A') + 10
	}
	return -1
}

func lexString(src []byte, start int) (Token, *Error) {
	i, n := start+1, len(src)
	var b strings.Builder
	for {
		if i >= n {
			return Token{}, &Error{Pos: i, End: i, Msg: "unterminated string", AtEOF: true}
		}
		c := src[i]
		switch {
		case c == '"':
			return Token{Kind: String, Value: b.String(), Start: start, End: i + 1}, nil
		case c == '\n' || c == '\r':
			return Token{}, &Error{Pos: i, End: i + 1, Msg: "unterminated string"}
		case c == '\\':
			if i+1 >= n {
				return Token{}, &Error{Pos: i + 1, End: i + 1, Msg: "unterminated escape", AtEOF: true}
			}
			e := src[i+1]
			switch e {
			case '"':
				b.WriteByte('"')
			case '\\':
				b.WriteByte('\\')
			case '/':
				b.WriteByte('/')
			case 'b':
				b.WriteByte('\b')
			case 'f':
				b.WriteByte('\f')
			case 'n':
				b.WriteByte('\n')
			case 'r':
				b.WriteByte('\r')
			case 't':
				b.WriteByte('\t')
			case 'u':
				v := 0
				for k := 0; k < 4; k++ {
					if i+2+k >= n {
						return Token{}, &Error{Pos: i + 1, End: n, Msg: "short unicode escape", AtEOF: true}
					}
					h := hexVal(src[i+2+k])
					if h < 0 {
						return Token{}, &Error{Pos: i + 1, End: i + 2 + k + 1, Msg: "bad unicode escape"}
					}
					v = v<<4 | h
				}
				if v >= 0xD800 && v <= 0xDFFF {
					return Token{}, &Error{Pos: i, Msg: "surrogate escape", Unspecified: true}
				}
				b.WriteRune(rune(v))
				i += 4
			default:
				_, w := utf8.DecodeRune(src[i+1:])
				return Token{}, &Error{Pos: i + 1, End: i + 1 + w, Msg: "bad escape"}
			}
			i += 2
		default:
			r, w := utf8.DecodeRune(src[i:])
			if r < 0x20 && r != '\t' {
				return Token{}, &Error{Pos: i, End: i + w, Msg: "control character in string"}
			}
			b.Write(src[i : i+w])
			i += w
		}
	}
}

func lexBlockString(src []byte, start int) (Token, *Error) {
	i, n := start+3, len(src)
	var raw strings.Builder
	for {
		if i >= n {
			return Token{}, &Error{Pos: i, End: i, Msg: "unterminated block string", AtEOF: true}
		}
		if src[i] == '"' && i+2 < n && src[i+1] == '"' && src[i+2] == '"' {
			return Token{Kind: BlockString, Value: BlockStringValue(raw.String()), Start: start, End: i + 3}, nil
		}
		if src[i] == '\\' && i+3 < n && src[i+1] == '"' && src[i+2] == '"' && src[i+3] == '"' {
			raw.WriteString(`"""`)
			i += 4
			continue
		}
		r, w := utf8.DecodeRune(src[i:])
		if r < 0x20 && r != '\t' && r != '\n' && r != '\r' {
			return Token{}, &Error{Pos: i, End: i + w, Msg: "control character in block string"}
		}
		raw.Write(src[i : i+w])
		i += w
	}
}

// BlockStringValue is the spec's BlockStringValue(rawValue) algorithm.
func BlockStringValue(raw string) string {
	// split on \r\n | \n | \r
	var lines []string
	cur := strings.Builder{}
	for i := 0; i < len(raw); i++ {
		c := raw[i]
		if c == '\r' {
			if i+1 < len(raw) && raw[i+1] == '\n' {
				i++
			}
			lines = append(lines, cur.String())
			cur.Reset()
		} else if c == '\n' {
			lines = append(lines, cur.String())
			cur.Reset()
		} else {
			cur.WriteByte(c)
		}
	}
	lines = append(lines, cur.String())
	indent := func(l string) int {
		k := 0
		for k < len(l) && (l[k] == ' ' || l[k] == '\t') {
			k++
		}
		return k
	}
	common := -1
	for i := 1; i < len(lines); i++ {
		in := indent(lines[i])
		if in < len(lines[i]) && (common == -1 || in < common) {
			common = in
		}
	}
	if common > 0 {
		for i := 1; i < len(lines); i++ {
			if common <= len(lines[i]) {
				lines[i] = lines[i][common:]
			} else {
				lines[i] = ""
			}
		}
	}
	blank := func(l string) bool { return indent(l) == len(l) }
	for len(lines) > 0 && blank(lines[0]) {
		lines = lines[1:]
	}
	for len(lines) > 0 && blank(lines[len(lines)-1]) {
		lines = lines[:len(lines)-1]
	}
	return strings.Join(lines, "\n")
}
