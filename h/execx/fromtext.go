package execx

import (
	"strings"

	"github.com/graphql-go/graphql/language/ast"

	"verif/h/gen"
)

// DocFromText builds the generator's document structure from a text through the library's
// parser (whose AST is C03's business).
func DocFromText(text string) (*gen.Doc, error) {
	doc, err := Parse(text)
	if err != nil {
		return nil, err
	}
	var value func(v ast.Value) gen.Value
	value = func(v ast.Value) gen.Value {
		switch n := v.(type) {
		case *ast.Variable:
			return gen.VarV(n.Name.Value)
		case *ast.IntValue:
			return gen.Value{Kind: gen.VInt, S: n.Value}
		case *ast.FloatValue:
			return gen.FloatV(n.Value)
		case *ast.StringValue:
			return gen.StrV(n.Value)
		case *ast.BooleanValue:
			return gen.BoolV(n.Value)
		case *ast.EnumValue:
			return gen.EnumV(n.Value)
		case *ast.ListValue:
			out := gen.Value{Kind: gen.VList}
			for _, it := range n.Values {
				out.Items = append(out.Items, value(it))
			}
			return out
		case *ast.ObjectValue:
			out := gen.Value{Kind: gen.VObject}
			for _, f := range n.Fields {
				out.Fields = append(out.Fields, gen.Arg{Name: f.Name.Value, Val: value(f.Value)})
			}
			return out
		}
		return gen.Value{}
	}
	args := func(as []*ast.Argument) []gen.Arg {
		var out []gen.Arg
		for _, a := range as {
			out = append(out, gen.Arg{Name: a.Name.Value, Val: value(a.Value)})
		}
		return out
	}
	dirs := func(ds []*ast.Directive) []gen.Dir {
		var out []gen.Dir
		for _, d := range ds {
			out = append(out, gen.Dir{Name: d.Name.Value, Args: args(d.Arguments)})
		}
		return out
	}
	var typ func(t ast.Type) *gen.TypeRef
	typ = func(t ast.Type) *gen.TypeRef {
		switch n := t.(type) {
		case *ast.Named:
			return gen.Named(n.Name.Value)
		case *ast.List:
			return gen.ListOf(typ(n.Type))
		case *ast.NonNull:
			return gen.NonNull(typ(n.Type))
		}
		return nil
	}
	var sels func(ss *ast.SelectionSet) []*gen.Sel
	sels = func(ss *ast.SelectionSet) []*gen.Sel {
		if ss == nil {
			return nil
		}
		var out []*gen.Sel
		for _, x := range ss.Selections {
			switch n := x.(type) {
			case *ast.Field:
				s := &gen.Sel{Kind: gen.SField, Name: n.Name.Value, Args: args(n.Arguments), Dirs: dirs(n.Directives), Sel: sels(n.SelectionSet)}
				if n.Alias != nil {
					s.Alias = n.Alias.Value
				}
				out = append(out, s)
			case *ast.InlineFragment:
				s := &gen.Sel{Kind: gen.SInline, Dirs: dirs(n.Directives), Sel: sels(n.SelectionSet)}
				if n.TypeCondition != nil {
					s.HasCond, s.Cond = true, n.TypeCondition.Name.Value
				}
				out = append(out, s)
			case *ast.FragmentSpread:
				out = append(out, &gen.Sel{Kind: gen.SSpread, Name: n.Name.Value, Dirs: dirs(n.Directives)})
			}
		}
		return out
	}
	d := &gen.Doc{}
	for _, def := range doc.Definitions {
		switch n := def.(type) {
		case *ast.OperationDefinition:
			op := &gen.Op{Kind: n.Operation, Dirs: dirs(n.Directives), Sel: sels(n.SelectionSet)}
			if n.Name != nil {
				op.Name = n.Name.Value
			}
			for _, vd := range n.VariableDefinitions {
				g := &gen.VarDef{Name: vd.Variable.Name.Value, Type: typ(vd.Type)}
				if vd.DefaultValue != nil {
					dv := value(vd.DefaultValue)
					g.Default = &dv
				}
				op.Vars = append(op.Vars, g)
			}
			op.Short = n.Operation == "query" && op.Name == "" && len(op.Vars) == 0 && len(op.Dirs) == 0 && !strings.HasPrefix(strings.TrimSpace(text[n.Loc.Start:]), "query")
			d.Ops = append(d.Ops, op)
		case *ast.FragmentDefinition:
			d.Frags = append(d.Frags, &gen.Frag{Name: n.Name.Value, Cond: n.TypeCondition.Name.Value, Dirs: dirs(n.Directives), Sel: sels(n.SelectionSet)})
		}
	}
	return d, nil
}
