// Package execx runs one request through the library's query/mutation entry points and
// compares what came back (and what the resolvers were told) with M-exec's prediction.
package execx

import (
	"context"
	"fmt"
	"sort"
	"strings"

	"github.com/graphql-go/graphql"
	"github.com/graphql-go/graphql/language/ast"
	"github.com/graphql-go/graphql/language/parser"
	"github.com/graphql-go/graphql/language/source"

	"verif/h/bridge"
	"verif/h/gen"
	"verif/h/model"
	"verif/h/world"
)

const (
	EntryDo = iota
	EntryExecute
	EntryPlan
	NEntries
)

var EntryNames = []string{"Do", "Execute", "PlanQuery+ExecutePlan"}

type ctxKey struct{}

// Fixture is a bridged schema plus its world, reusable across executions.
type Fixture struct {
	G    *gen.Schema
	B    *bridge.Built
	W    *world.World
	Root map[string]interface{}
	Ctx  context.Context

	lastText string
	lastAST  *ast.Document
	lastErr  error
	lastVal  *graphql.ValidationResult
	planKey  string
	plan     *graphql.Plan
	planErr  error
}

func NewFixture(g *gen.Schema, o bridge.Options) (*Fixture, error) {
	b, err := bridge.Build(g, o)
	if err != nil {
		return nil, err
	}
	w := world.New(g)
	b.H = w
	f := &Fixture{G: g, B: b, W: w}
	f.Root = map[string]interface{}{"__id": "$"}
	f.Ctx = context.WithValue(context.Background(), ctxKey{}, "ctx")
	w.Root, w.Ctx, w.SchemaQ = f.Root, f.Ctx, b.Schema.QueryType()
	return f, nil
}

type ctxKey2 struct{}

// SetRequest installs the per-request root value and context the next Run uses (and the
// world expects to see in every callback).
func (f *Fixture) SetRequest(rootID string, altCtx bool) {
	f.Root = map[string]interface{}{"__id": rootID}
	if altCtx {
		f.Ctx = context.WithValue(context.Background(), ctxKey2{}, "other ctx")
	} else {
		f.Ctx = context.WithValue(context.Background(), ctxKey{}, "ctx")
	}
	f.W.Root, f.W.Ctx = f.Root, f.Ctx
}

func Parse(text string) (*ast.Document, error) {
	return parser.Parse(parser.ParseParams{Source: source.NewSource(&source.Source{Body: []byte(text), Name: "GraphQL request"})})
}

// Prepare parses and validates text (cached for the last text).
func (f *Fixture) Prepare(text string) (*ast.Document, error, *graphql.ValidationResult) {
	if text == f.lastText && (f.lastAST != nil || f.lastErr != nil) {
		return f.lastAST, f.lastErr, f.lastVal
	}
	f.lastText = text
	f.lastAST, f.lastErr = Parse(text)
	f.lastVal = nil
	if f.lastErr == nil {
		v := graphql.ValidateDocument(&f.B.Schema, f.lastAST, nil)
		f.lastVal = &v
	}
	return f.lastAST, f.lastErr, f.lastVal
}

type Obs struct {
	Data     interface{}
	HasData  bool
	ErrPaths []string
	ErrMsgs  []string
	NoPath   []string // messages of errors without a path
	Panic    interface{}
	Result   *graphql.Result
}

func observe(r *graphql.Result) Obs {
	o := Obs{Result: r}
	if r == nil {
		return o
	}
	if r.Data != nil {
		if m, ok := r.Data.(map[string]interface{}); ok {
			if m != nil {
				o.Data, o.HasData = m, true
			}
		} else {
			o.Data, o.HasData = r.Data, true
		}
	}
	for _, e := range r.Errors {
		o.ErrMsgs = append(o.ErrMsgs, e.Message)
		if e.Path != nil {
			o.ErrPaths = append(o.ErrPaths, model.PathString(e.Path))
		} else {
			o.NoPath = append(o.NoPath, e.Message)
		}
	}
	return o
}

// Run executes the request through one entry point. The world's log is reset first.
func (f *Fixture) Run(entry int, text, opName string, inputs map[string]interface{}) (obs Obs) {
	f.W.ResetLog()
	defer func() {
		if r := recover(); r != nil {
			obs = Obs{Panic: r}
		}
	}()
	switch entry {
	case EntryDo:
		return observe(graphql.Do(graphql.Params{Schema: f.B.Schema, RequestString: text, RootObject: f.Root, VariableValues: inputs, OperationName: opName, Context: f.Ctx}))
	case EntryExecute:
		doc, err, _ := f.Prepare(text)
		if err != nil {
			return Obs{Panic: "parse: " + err.Error()}
		}
		return observe(graphql.Execute(graphql.ExecuteParams{Schema: f.B.Schema, Root: f.Root, AST: doc, OperationName: opName, Args: inputs, Context: f.Ctx}))
	default:
		doc, err, _ := f.Prepare(text)
		if err != nil {
			return Obs{Panic: "parse: " + err.Error()}
		}
		key := opName + "\x00" + text
		if f.planKey != key {
			f.planKey = key
			f.plan, f.planErr = graphql.PlanQuery(&f.B.Schema, doc, opName)
		}
		if f.planErr != nil {
			return Obs{NoPath: []string{f.planErr.Error()}, ErrMsgs: []string{f.planErr.Error()}}
		}
		return observe(graphql.ExecutePlan(f.plan, graphql.ExecuteParams{Schema: f.B.Schema, Root: f.Root, Args: inputs, Context: f.Ctx}))
	}
}

// OpNameOf returns the operation the model must select and record the op's name expected
// in ResolveInfo.
func OpNameOf(doc *gen.Doc, requested string) string {
	if requested != "" {
		return requested
	}
	if len(doc.Ops) == 1 {
		return doc.Ops[0].Name
	}
	return ""
}

type CompareOpts struct {
	Calls  bool // compare the resolver call log
	Strict bool // C20: also per-call info (root, ctx, schema, operation, fragments, variables)
	Vars   string
}

// Compare returns "" when the observation satisfies the prediction.
func Compare(exp *model.ExecResult, obs Obs, w *world.World, o CompareOpts) string {
	if obs.Panic != nil {
		return fmt.Sprintf("panic escaped the entry point: %v", obs.Panic)
	}
	if exp.Request != "" {
		if obs.HasData {
			return "request-level error expected (" + exp.Request + ") but data returned"
		}
		if len(obs.ErrMsgs) == 0 {
			return "request-level error expected (" + exp.Request + ") but no error returned"
		}
		return ""
	}
	if len(obs.NoPath) > 0 {
		return fmt.Sprintf("unexpected request-level error: %s", obs.NoPath[0])
	}
	if !model.DeepEqualJSON(exp.Data, obs.Data) {
		return fmt.Sprintf("data differs: expected %s, observed %s", model.Canon(exp.Data), model.Canon(obs.Data))
	}
	if d := model.CheckErrors(exp.Errors, obs.ErrPaths); d != "" {
		return d + fmt.Sprintf(" (observed error paths %v)", obs.ErrPaths)
	}
	if !o.Calls {
		return ""
	}
	expCalls := map[string]*model.CallExp{}
	for _, c := range exp.Calls {
		expCalls[c.Path] = c
	}
	var paths []string
	for p := range w.Calls {
		paths = append(paths, p)
	}
	sort.Strings(paths)
	for _, p := range paths {
		c := w.Calls[p]
		e := expCalls[p]
		if e == nil {
			return fmt.Sprintf("resolver invoked at %q, which the execution algorithm does not select", p)
		}
		if c.N > 1 {
			return fmt.Sprintf("resolver at %q invoked %d times", p, c.N)
		}
		if c.ArgsNil {
			return fmt.Sprintf("resolver at %q received a nil Args map", p)
		}
		if c.Args != e.Args {
			return fmt.Sprintf("resolver at %q received args %s, expected %s", p, c.Args, e.Args)
		}
		if c.Source != e.Source {
			return fmt.Sprintf("resolver at %q received source %s, expected %s", p, c.Source, e.Source)
		}
		if c.Field != e.Field || c.ParentType != e.ParentType || c.ReturnType != e.ReturnType {
			return fmt.Sprintf("resolver at %q told field=%s parent=%s return=%s, expected %s %s %s", p, c.Field, c.ParentType, c.ReturnType, e.Field, e.ParentType, e.ReturnType)
		}
		if c.Occ < e.Occ {
			return fmt.Sprintf("resolver at %q saw %d occurrences in FieldASTs, %d are included", p, c.Occ, e.Occ)
		}
		if o.Strict {
			switch {
			case !c.RootOK:
				return fmt.Sprintf("resolver at %q: Info.RootValue is not the request's root value", p)
			case !c.CtxOK:
				return fmt.Sprintf("resolver at %q: context is not the caller's context", p)
			case !c.SchemaOK:
				return fmt.Sprintf("resolver at %q: Info.Schema is not the schema", p)
			case !c.OpOK:
				return fmt.Sprintf("resolver at %q: Info.Operation is not the selected operation", p)
			case !c.FragsOK:
				return fmt.Sprintf("resolver at %q: Info.Fragments does not hold the document's fragments", p)
			case c.Vars != o.Vars:
				return fmt.Sprintf("resolver at %q: Info.VariableValues = %s, expected %s", p, c.Vars, o.Vars)
			}
		}
	}
	for _, e := range exp.Calls {
		if !e.Optional && w.Calls[e.Path] == nil {
			return fmt.Sprintf("resolver for %q was never invoked", e.Path)
		}
	}
	if o.Strict {
		fieldAt := map[string]string{}
		for _, e := range exp.Calls {
			fieldAt[e.Path] = e.Field
		}
		for _, tc := range w.TypeOfs {
			if !tc.CtxOK {
				return fmt.Sprintf("isTypeOf of %s at %q: context is not the caller's context", tc.Object, tc.Path)
			}
			if tc.ValueID != tc.Path && !strings.HasPrefix(tc.ValueID, tc.Path+"/") {
				return fmt.Sprintf("isTypeOf of %s at %q received value %q", tc.Object, tc.Path, tc.ValueID)
			}
			if f, ok := fieldAt[tc.Path]; ok && f != tc.Field {
				return fmt.Sprintf("isTypeOf of %s at %q: Info.FieldName = %q, expected %q", tc.Object, tc.Path, tc.Field, f)
			}
		}
		seenT := map[string]bool{}
		for _, tc := range w.Types {
			if f, ok := fieldAt[tc.Path]; ok && f != tc.Field {
				return fmt.Sprintf("type resolver of %s at %q: Info.FieldName = %q, expected %q", tc.Abstract, tc.Path, tc.Field, f)
			}
			if !tc.CtxOK {
				return fmt.Sprintf("type resolver of %s at %q: context is not the caller's context", tc.Abstract, tc.Path)
			}
			// the value is the one being completed for the field at Info.Path (an element
			// of it when the field is a list)
			if tc.ValueID != tc.Path && !strings.HasPrefix(tc.ValueID, tc.Path+"/") {
				return fmt.Sprintf("type resolver of %s at %q received value %q", tc.Abstract, tc.Path, tc.ValueID)
			}
			if seenT[tc.ValueID+"|"+tc.Abstract] {
				return fmt.Sprintf("type resolver of %s invoked twice for value %q", tc.Abstract, tc.ValueID)
			}
			seenT[tc.ValueID+"|"+tc.Abstract] = true
			if !exp.AbstractAt[tc.ValueID] {
				return fmt.Sprintf("type resolver of %s invoked for %q, where no abstract value is completed", tc.Abstract, tc.ValueID)
			}
		}
	}
	return ""
}

// Features summarises what makes a document non-trivial.
func Features(text string) (dupKey, frag, dynDir bool) {
	frag = strings.Contains(text, "...")
	dynDir = strings.Contains(text, "(if: $")
	return false, frag, dynDir
}
