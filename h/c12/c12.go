// Package c12 decides C12 (the same request always produces the same response): hash-map
// iteration order is an enumerable choice (map-range seam): every request of a pool is
// executed with every single (quick) / pair (thorough) of deviating iteration orders
// (reversed, each adjacent transposition) at every map walk the library performs, and
// after every short history of other requests on the same schema and plan cache; the JSON
// of the response must be byte-identical to the sorted-order, history-free run.
package c12

import (
	"encoding/json"
	"fmt"
	"strings"

	"github.com/graphql-go/graphql"
	"github.com/graphql-go/graphql/vseam"

	"verif/explore"
	"verif/h/bridge"
	"verif/h/core"
	"verif/h/execx"
	"verif/h/gen"
	"verif/h/model"
	"verif/report"
)

func init() { core.Register("C12", &core.Check{Run: run, Replay: replay}) }

type request struct {
	name string
	q    string
	vars map[string]interface{}
	out  []model.Outcome // resolver outcome alphabet restriction (thunks) or nil
}

const introspectionQuery = `{ __schema { queryType { name } mutationType { name } directives { name locations args { name } }
 types { kind name fields(includeDeprecated: true) { name args { name defaultValue type { kind name ofType { kind name } } } type { kind name } }
 inputFields { name defaultValue } interfaces { name } enumValues(includeDeprecated: true) { name } possibleTypes { name } } } }`

var pool = []request{
	{name: "valid", q: `{ a b e o { x y } l { x } i { x ... on O { y } } }`},
	{name: "unknown field with suggestions", q: `{ aa o { xx yy } }`},
	{name: "unknown argument with suggestions", q: `{ f(xx: 1, yy: A, inn: {a: 1}) }`},
	{name: "unknown type with suggestions", q: `query($v: Innn, $w: Custo) { f(in: $v) c } `},
	{name: "bad input object literal", q: `{ f(in: {a: "x", b: "y", c: Z, zz: 1, yy: 2}) }`},
	{name: "bad variables, several fields", q: `query($in: In) { f(in: $in) }`, vars: map[string]interface{}{"in": map[string]interface{}{"a": "x", "b": "y", "c": "Z", "zz": 1, "yy": 2}}},
	{name: "several validation errors", q: `query($u: Int) { nope ...Missing o { x { y } } a { b } } fragment Unused on O { x }`},
	{name: "failing thunks", q: `{ a b n e o { x y n e } l { x y } }`, out: []model.Outcome{model.ThunkErr}},
	{name: "failing fields", q: `{ a b e o { x y e } ll { x y } }`, out: []model.Outcome{model.Err}},
	{name: "full introspection", q: introspectionQuery},
	{name: "type introspection", q: `{ __type(name: "In") { inputFields { name defaultValue } } o: __type(name: "O") { fields { name args { name } } interfaces { name } } i: __type(name: "I") { possibleTypes { name } fields { name } } }`},
	{name: "mutation", q: `mutation { m1 m2 m3 { x y } m4 { x } }`, out: []model.Outcome{model.ThunkOK}},
	// three requests with one normalised shape up to aliases, literals and a variable
	{name: "alias k, literal", q: `{ k: f(x: 1) o { x } }`},
	{name: "alias j, other literal", q: `{ j: f(x: 2) o { x } }`},
	{name: "no alias, variable", q: `query($x: Int = 3) { f(x: $x) o { x } }`},
	{name: "one literal at a nullable and at a non-null position", q: `{ f(x: 7) r(q: 7) }`},
	// lists filtered per request from storage that belongs to the schema
	{name: "enum values without the deprecated ones", q: `{ __type(name: "E") { enumValues { name } } }`},
	{name: "enum values with the deprecated ones", q: `{ __type(name: "E") { enumValues(includeDeprecated: true) { name isDeprecated } } }`},
	{name: "fields without the deprecated ones", q: `{ __type(name: "O") { fields { name } } }`},
	{name: "two conflicting response names in one selection set", q: `{ o { a: x a: y b: x b: y c: x c: n } }`},
}

var curX *explore.X
var devSites []string

// order: sorted (0), reversed (1), adjacent transposition j (2+j); a non-default answer is
// one deviation.
func order(site string, n int) []int {
	if curX == nil {
		return nil
	}
	k := curX.Dev(n+1, "map order")
	if k == 0 {
		return nil
	}
	devSites = append(devSites, site)
	p := make([]int, n)
	for i := range p {
		p[i] = i
	}
	if k == 1 {
		for i := range p {
			p[i] = n - 1 - i
		}
		return p
	}
	j := k - 2
	p[j], p[j+1] = p[j+1], p[j]
	return p
}

type allFail struct {
	*execx.Fixture
	out []model.Outcome
}

func render(r *graphql.Result) string {
	b, err := json.Marshal(r)
	if err != nil {
		return "MARSHAL: " + err.Error()
	}
	return string(b)
}

// exec runs one request; every resolver invocation answers with the request's fixed
// outcome (if any), so the only nondeterminism is the map order.
func exec(f *execx.Fixture, rq request, cache *graphql.PlanCache) string {
	f.W.X = nil
	f.W.ResetAll()
	f.W.Alphabet = []model.Outcome{model.OK}
	if rq.out != nil {
		f.W.Alphabet = rq.out // index 0 = the forced outcome
	}
	if cache != nil {
		pr := cache.Get(&f.B.Schema, rq.q, "")
		if len(pr.Errors) > 0 {
			return render(&graphql.Result{Errors: pr.Errors})
		}
		args := map[string]interface{}{}
		for k, v := range rq.vars {
			args[k] = v
		}
		for k, v := range pr.SynthArgs {
			args[k] = v
		}
		return render(graphql.ExecutePlan(pr.Plan, graphql.ExecuteParams{Schema: f.B.Schema, Args: args, Root: f.Root, Context: f.Ctx}))
	}
	return render(graphql.Do(graphql.Params{Schema: f.B.Schema, RequestString: rq.q, VariableValues: rq.vars, RootObject: f.Root, Context: f.Ctx}))
}

func validation(f *execx.Fixture, rq request) string {
	doc, err := execx.Parse(rq.q)
	if err != nil {
		return "parse error"
	}
	vr := graphql.ValidateDocument(&f.B.Schema, doc, nil)
	b, _ := json.Marshal(vr.Errors)
	return string(b)
}

// kitchen is the schema of this check: the kitchen schema plus a deprecated field and a
// deprecated enum value, each sorting first among its siblings, and a required argument.
func kitchen() *gen.Schema {
	g := gen.Kitchen()
	g.Types["O"].Fields = append(g.Types["O"].Fields, &gen.FieldDef{Name: "aOld", Type: gen.Named("String"), Deprecated: "old"})
	g.Types["Query"].Fields = append(g.Types["Query"].Fields, gen.F("r(q:Int!):String"))
	g.Types["E"].Values[0].Deprecated = "old"
	// interfaces with more than one field (their field lists are user visible, too)
	g.Types["I"].Fields = append(g.Types["I"].Fields, gen.F("p:I"), gen.F("b2:String"))
	g.Types["O"].Fields = append(g.Types["O"].Fields, gen.F("p:O"), gen.F("b2:String"))
	g.Types["P"].Fields = append(g.Types["P"].Fields, gen.F("p:I"), gen.F("b2:String"))
	return g
}

func run(c *core.Ctx) {
	maxDev := c.Pick(1, 2)
	c.R.Rule = "case = (request of the pool: valid, each class of validation error with suggestions, variable errors with several bad fields, failing fields and failing thunks, full and partial introspection, a mutation with thunks; placement of <= k deviating iteration orders - reversed or one adjacent transposition - at the map walks the library performs while serving it; also with the schema built inside the permuted region; histories of <= 2 other requests on the same schema and plan cache); oracle: byte-identical JSON; non-trivial = at least one deviating map walk or a non-empty history"
	c.R.Assumptions = []string{"map-range seam: any key order is a legal Go map iteration order, so a response that depends on it can differ between runs and processes", "Go toolchain"}
	c.R.Bounds["deviating_map_walks"] = maxDev
	g := kitchen()
	f, err := execx.NewFixture(g, bridge.Options{})
	if err != nil {
		c.R.HarnessError("fixture: %v", err)
		return
	}
	vseam.Order = order
	defer func() { vseam.Order = nil }()
	vseam.Seen = map[string]int{}
	for ri, rq := range pool {
		rq := rq
		curX = nil
		base := exec(f, rq, nil)
		baseVal := validation(f, rq)
		// (1) map orders while serving the request
		e := c.Explorer(maxDev)
		e.Run(func(x *explore.X, owned bool) uint64 {
			curX = x
			devSites = devSites[:0]
			got := exec(f, rq, nil)
			gotVal := validation(f, rq)
			curX = nil
			dig := report.H(got + gotVal)
			if !owned {
				return dig
			}
			c.R.Evaluations++
			c.R.States++
			c.R.Outcome(dig)
			if x.Devs() > 0 {
				c.R.Nontriv(report.H(fmt.Sprint(ri, x.Trace())))
			}
			if c.R.WantSample() {
				c.R.Sample(map[string]interface{}{"request": rq.name, "query": rq.q, "map_walks": x.Depth(), "deviations": x.Devs()})
			}
			if got != base {
				c.Mismatch(classify(rq, base, got), "order "+fmt.Sprint(devSites), fmt.Sprintf("%s %q: with another iteration order of the map walked at %v the response is %s instead of %s", rq.name, rq.q, devSites, trunc(got), trunc(base)),
					map[string]interface{}{"request": ri, "choices": x.Trace()})
			} else if gotVal != baseVal {
				c.Mismatch(classify(rq, baseVal, gotVal), "order validation "+fmt.Sprint(devSites), fmt.Sprintf("%s %q: with another iteration order of the map walked at %v ValidateDocument reports %s instead of %s", rq.name, rq.q, devSites, trunc(gotVal), trunc(baseVal)),
					map[string]interface{}{"request": ri, "choices": x.Trace()})
			}
			return dig
		})
		c.Absorb(e)
		if c.Expired() {
			return
		}
	}
	// (2) histories: every request after every sequence of <= 2 other requests, on one
	// schema and one plan cache (plain and normalising). Every history starts from a schema
	// built for it, and the reference answer comes from yet another new schema through an
	// empty cache of the same kind: state that an earlier request leaves behind in the cache,
	// in a plan OR in the schema itself changes the answer and is reported.
	idx := 0
	for _, norm := range []bool{false, true} {
		for ri, rq := range pool {
			fb, err := execx.NewFixture(g, bridge.Options{})
			if err != nil {
				c.R.HarnessError("fixture: %v", err)
				return
			}
			// through the cache error locations may refer to the normalised document, so the
			// reference goes through a cache, too
			fresh := exec(fb, rq, graphql.NewPlanCache(graphql.PlanCacheOptions{MaxEntries: 2, Normalize: norm}))
			for h1 := -1; h1 < len(pool); h1++ {
				for h2 := -1; h2 < len(pool); h2++ {
					if h1 == -1 && h2 != -1 {
						continue
					}
					if !c.Mine(idx) {
						idx++
						continue
					}
					idx++
					fh, err := execx.NewFixture(g, bridge.Options{})
					if err != nil {
						c.R.HarnessError("fixture: %v", err)
						return
					}
					cache := graphql.NewPlanCache(graphql.PlanCacheOptions{MaxEntries: 2, Normalize: norm})
					if h1 >= 0 {
						exec(fh, pool[h1], cache)
					}
					if h2 >= 0 {
						exec(fh, pool[h2], cache)
					}
					got := exec(fh, rq, cache)
					c.R.Evaluations++
					c.R.States++
					c.R.Transitions += 3
					if h1 >= 0 {
						c.R.Nontriv(report.H(fmt.Sprint("h", norm, ri, h1, h2)))
					}
					if got != fresh {
						c.Mismatch("", "history "+rq.name, fmt.Sprintf("%s %q after requests [%d %d] (normalising=%v): %s instead of %s", rq.name, rq.q, h1, h2, norm, trunc(got), trunc(fresh)),
							map[string]interface{}{"request": ri, "h1": h1, "h2": h2, "norm": norm})
					}
				}
			}
			if c.Expired() {
				return
			}
		}
	}
	c.R.Bounds["map_walk_sites_seen"] = len(vseam.Seen)
	// (3) schema construction inside the permuted region ("fresh process")
	{
		for ri, rq := range pool {
			if !strings.Contains(rq.name, "introspection") && !strings.Contains(rq.name, "suggestions") {
				continue
			}
			rq := rq
			for _, withAppend := range []bool{false, true} {
				withAppend := withAppend
				build := func() (*execx.Fixture, error) {
					if withAppend {
						return appended(g)
					}
					return execx.NewFixture(g, bridge.Options{})
				}
				base := ""
				if fb, err := build(); err != nil {
					c.R.HarnessError("construction: %v", err)
					return
				} else {
					base = exec(fb, rq, nil)
				}
				e := c.Explorer(1)
				e.Run(func(x *explore.X, owned bool) uint64 {
					curX = x
					devSites = devSites[:0]
					f2, err := build()
					var got string
					if err != nil {
						got = "schema: " + err.Error()
					} else {
						got = exec(f2, rq, nil)
					}
					curX = nil
					dig := report.H(got)
					if !owned {
						return dig
					}
					c.R.Evaluations++
					c.R.States++
					if got != base {
						c.Mismatch(classify(rq, base, got), "construction order "+fmt.Sprint(devSites), fmt.Sprintf("%s: a schema built (or served) under another iteration order of the map walked at %v answers %s instead of %s", rq.name, devSites, trunc(got), trunc(base)),
							map[string]interface{}{"request": ri, "choices": x.Trace(), "construct": true, "append": withAppend})
					}
					return dig
				})
				c.Absorb(e)
				if c.Expired() {
					return
				}
			}
		}
	}
}

// appended builds the kitchen schema and then appends two more implementers of its
// interfaces (X: I; Y: I, J), the way a program extends a schema at run time.
func appended(g *gen.Schema) (*execx.Fixture, error) {
	ga := gen.Kitchen()
	for n, td := range g.Types {
		ga.Types[n] = td
	}
	var early []string
	for _, n := range ga.Order {
		if k := ga.Types[n].Kind; k == gen.KObject || k == gen.KInput || k == gen.KEnum || k == gen.KScalar {
			early = append(early, n)
		}
	}
	ga.Add(&gen.TypeDef{Kind: gen.KObject, Name: "Y", Interfaces: []string{"I", "J"}, Fields: []*gen.FieldDef{gen.F("x:String"), gen.F("y:String"), gen.F("p:I"), gen.F("b2:String")}})
	ga.Add(&gen.TypeDef{Kind: gen.KObject, Name: "X", Interfaces: []string{"I"}, Fields: []*gen.FieldDef{gen.F("x:String"), gen.F("p:I"), gen.F("b2:String")}})
	ga.Add(&gen.TypeDef{Kind: gen.KObject, Name: "B2", Interfaces: []string{"I", "J"}, Fields: []*gen.FieldDef{gen.F("x:String"), gen.F("y:String"), gen.F("p:I"), gen.F("b2:String")}})
	f, err := execx.NewFixture(ga, bridge.Options{ExtraTypes: early})
	if err != nil {
		return nil, err
	}
	for _, n := range []string{"Y", "X", "B2"} {
		if err := f.B.Schema.AppendType(f.B.Types[n]); err != nil {
			return nil, err
		}
	}
	return f, nil
}

func classify(rq request, base, got string) string { return "" }

func trunc(s string) string {
	if len(s) > 400 {
		return s[:400] + "..."
	}
	return s
}

// firstDiff returns the text around the first difference (used to tell findings apart).
func firstDiff(a, b string, n int) string {
	i := 0
	for i < len(a) && i < len(b) && a[i] == b[i] {
		i++
	}
	s := i - n
	if s < 0 {
		s = 0
	}
	e := i + 4
	if e > len(a) {
		e = len(a)
	}
	return a[s:e]
}

func replay(c *core.Ctx, p map[string]interface{}) (bool, string) {
	g := kitchen()
	f, err := execx.NewFixture(g, bridge.Options{})
	if err != nil {
		return false, err.Error()
	}
	rq := pool[int(p["request"].(float64))]
	if _, ok := p["h1"]; ok {
		return false, "history case: re-run the check"
	}
	var choices []int
	for _, v := range p["choices"].([]interface{}) {
		choices = append(choices, int(v.(float64)))
	}
	base := exec(f, rq, nil)
	if ap, _ := p["append"].(bool); ap {
		if fa, err := appended(g); err == nil {
			base = exec(fa, rq, nil)
		}
	}
	baseVal := validation(f, rq)
	vseam.Order = order
	defer func() { vseam.Order = nil }()
	var got, gotVal string
	explore.Replay(choices, 0, func(x *explore.X, owned bool) uint64 {
		curX = x
		if c, _ := p["construct"].(bool); c {
			f2, _ := execx.NewFixture(g, bridge.Options{})
			if ap, _ := p["append"].(bool); ap {
				f2, _ = appended(g)
			}
			got = exec(f2, rq, nil)
			gotVal = baseVal
		} else {
			got = exec(f, rq, nil)
			gotVal = validation(f, rq)
		}
		curX = nil
		return 0
	})
	if got != base || gotVal != baseVal {
		return false, fmt.Sprintf("%s: response depends on map iteration order: %s vs %s", rq.name, trunc(got), trunc(base))
	}
	return true, "response independent of this map iteration order"
}
