// Package bridge turns a gen.Schema into a real graphql.Schema whose every callback
// (field resolvers, type resolvers, isTypeOf, scalar functions) is routed to a Hooks value
// the harness can swap between executions.
package bridge

import (
	"fmt"
	"strconv"

	"github.com/graphql-go/graphql"
	"github.com/graphql-go/graphql/language/ast"

	"verif/h/gen"
)

type Hooks interface {
	Resolve(typeName string, f *gen.FieldDef, p graphql.ResolveParams) (interface{}, error)
	// ResolveType returns the runtime object type name ("" = nil result).
	ResolveType(abstract string, p graphql.ResolveTypeParams) string
	// IsTypeOf is consulted only when UseIsTypeOf is set at build time.
	IsTypeOf(object string, p graphql.IsTypeOfParams) bool
	// Subscribe is the Subscribe resolver of subscription root fields.
	Subscribe(f *gen.FieldDef, p graphql.ResolveParams) (interface{}, error)
}

type Options struct {
	UseIsTypeOf   bool // install IsTypeOf on objects
	NoResolveType bool // leave ResolveType nil on abstract types (default resolution through IsTypeOf)
	Extensions    []graphql.Extension
	ExtraTypes    []string // names of types to pass through SchemaConfig.Types (default: all objects)
}

type Built struct {
	G       *gen.Schema
	Schema  graphql.Schema
	Types   map[string]graphql.Type
	Objects map[string]*graphql.Object
	H       Hooks
}

// Custom scalar "Custom": serialises by prefixing "c:", parses by stripping it.
func customScalar(name string) *graphql.Scalar {
	return graphql.NewScalar(graphql.ScalarConfig{
		Name: name,
		Serialize: func(v interface{}) interface{} {
			if s, ok := v.(string); ok {
				return "c:" + s
			}
			return nil
		},
		ParseValue: func(v interface{}) interface{} {
			if s, ok := v.(string); ok && len(s) >= 2 && s[:2] == "c:" {
				return s[2:]
			}
			return nil
		},
		ParseLiteral: func(v ast.Value) interface{} {
			if sv, ok := v.(*ast.StringValue); ok && len(sv.Value) >= 2 && sv.Value[:2] == "c:" {
				return sv.Value[2:]
			}
			return nil
		},
	})
}

// GoValue converts a literal to the Go value the library is expected to hand to resolvers
// for an argument *default* configured at schema-build time (defaults are given to the
// library as already-coerced Go values).
func GoValue(s *gen.Schema, t *gen.TypeRef, v gen.Value) interface{} {
	switch t.Kind {
	case gen.TNonNull:
		return GoValue(s, t.Of, v)
	case gen.TList:
		if v.Kind != gen.VList {
			return []interface{}{GoValue(s, t.Of, v)}
		}
		out := []interface{}{}
		for _, it := range v.Items {
			out = append(out, GoValue(s, t.Of, it))
		}
		return out
	}
	td := s.Type(t.Name)
	switch td.Kind {
	case gen.KEnum:
		if ev := td.EnumByName(v.S); ev != nil {
			return ev.Internal
		}
		return nil
	case gen.KInput:
		out := map[string]interface{}{}
		for _, in := range td.Inputs {
			var fv *gen.Value
			for i := range v.Fields {
				if v.Fields[i].Name == in.Name {
					fv = &v.Fields[i].Val
				}
			}
			if fv != nil {
				out[in.Name] = GoValue(s, in.Type, *fv)
			} else if in.Default != nil {
				out[in.Name] = GoValue(s, in.Type, *in.Default)
			}
		}
		return out
	}
	switch t.Name {
	case "Int":
		n, _ := strconv.Atoi(v.S)
		return n
	case "Float":
		f, _ := strconv.ParseFloat(v.S, 64)
		return f
	case "Boolean":
		return v.B
	case "Custom":
		if len(v.S) >= 2 {
			return v.S[2:]
		}
		return nil
	default: // String, ID
		return v.S
	}
}

func Build(g *gen.Schema, o Options) (*Built, error) {
	b := &Built{G: g, Types: map[string]graphql.Type{}, Objects: map[string]*graphql.Object{}}
	b.Types["Int"], b.Types["Float"], b.Types["String"], b.Types["Boolean"], b.Types["ID"] = graphql.Int, graphql.Float, graphql.String, graphql.Boolean, graphql.ID

	var ref func(t *gen.TypeRef) graphql.Type
	ref = func(t *gen.TypeRef) graphql.Type {
		switch t.Kind {
		case gen.TList:
			return graphql.NewList(ref(t.Of))
		case gen.TNonNull:
			return graphql.NewNonNull(ref(t.Of))
		}
		if ty, ok := b.Types[t.Name]; ok {
			return ty
		}
		panic("bridge: unknown type " + t.Name)
	}
	args := func(as []*gen.ArgDef) graphql.FieldConfigArgument {
		if len(as) == 0 {
			return nil
		}
		out := graphql.FieldConfigArgument{}
		for _, a := range as {
			ac := &graphql.ArgumentConfig{Type: ref(a.Type).(graphql.Input)}
			if a.Default != nil {
				ac.DefaultValue = GoValue(g, a.Type, *a.Default)
			}
			out[a.Name] = ac
		}
		return out
	}

	// pass 1: leaf and input types, shells of composite types (fields are thunks)
	for _, n := range g.Order {
		td := g.Types[n]
		switch td.Kind {
		case gen.KScalar:
			b.Types[n] = customScalar(n)
		case gen.KEnum:
			vals := graphql.EnumValueConfigMap{}
			for _, v := range td.Values {
				vals[v.Name] = &graphql.EnumValueConfig{Value: v.Internal, DeprecationReason: v.Deprecated}
			}
			b.Types[n] = graphql.NewEnum(graphql.EnumConfig{Name: n, Values: vals})
		}
	}
	for _, n := range g.Order {
		n, td := n, g.Types[n]
		if td.Kind != gen.KInput {
			continue
		}
		b.Types[n] = graphql.NewInputObject(graphql.InputObjectConfig{Name: n, Fields: graphql.InputObjectConfigFieldMapThunk(func() graphql.InputObjectConfigFieldMap {
			m := graphql.InputObjectConfigFieldMap{}
			for _, in := range td.Inputs {
				fc := &graphql.InputObjectFieldConfig{Type: ref(in.Type).(graphql.Input)}
				if in.Default != nil {
					fc.DefaultValue = GoValue(g, in.Type, *in.Default)
				}
				m[in.Name] = fc
			}
			return m
		})})
	}
	fields := func(td *gen.TypeDef, isSub bool) graphql.FieldsThunk {
		return func() graphql.Fields {
			m := graphql.Fields{}
			for _, f := range td.Fields {
				f := f
				fc := &graphql.Field{Type: ref(f.Type).(graphql.Output), Args: args(f.Args), DeprecationReason: f.Deprecated}
				if td.Kind == gen.KObject {
					fc.Resolve = func(p graphql.ResolveParams) (interface{}, error) { return b.H.Resolve(td.Name, f, p) }
					if isSub {
						fc.Subscribe = func(p graphql.ResolveParams) (interface{}, error) { return b.H.Subscribe(f, p) }
					}
				}
				m[f.Name] = fc
			}
			return m
		}
	}
	for _, n := range g.Order {
		td := g.Types[n]
		if td.Kind != gen.KInterface {
			continue
		}
		ic := graphql.InterfaceConfig{Name: n, Fields: fields(td, false)}
		if !o.NoResolveType {
			n := n
			ic.ResolveType = func(p graphql.ResolveTypeParams) *graphql.Object {
				return b.Objects[b.H.ResolveType(n, p)]
			}
		}
		b.Types[n] = graphql.NewInterface(ic)
	}
	for _, n := range g.Order {
		td := g.Types[n]
		if td.Kind != gen.KObject {
			continue
		}
		n, td := n, td
		oc := graphql.ObjectConfig{Name: n, Fields: fields(td, n == g.Subscription)}
		if len(td.Interfaces) > 0 {
			oc.Interfaces = graphql.InterfacesThunk(func() []*graphql.Interface {
				var out []*graphql.Interface
				for _, i := range td.Interfaces {
					out = append(out, b.Types[i].(*graphql.Interface))
				}
				return out
			})
		}
		if o.UseIsTypeOf {
			oc.IsTypeOf = func(p graphql.IsTypeOfParams) bool { return b.H.IsTypeOf(n, p) }
		}
		obj := graphql.NewObject(oc)
		b.Types[n] = obj
		b.Objects[n] = obj
	}
	for _, n := range g.Order {
		td := g.Types[n]
		if td.Kind != gen.KUnion {
			continue
		}
		n := n
		var ms []*graphql.Object
		for _, m := range td.Members {
			ms = append(ms, b.Objects[m])
		}
		uc := graphql.UnionConfig{Name: n, Types: ms}
		if !o.NoResolveType {
			uc.ResolveType = func(p graphql.ResolveTypeParams) *graphql.Object {
				return b.Objects[b.H.ResolveType(n, p)]
			}
		}
		b.Types[n] = graphql.NewUnion(uc)
	}
	cfg := graphql.SchemaConfig{Extensions: o.Extensions}
	if g.Query != "" {
		cfg.Query = b.Objects[g.Query]
	}
	if g.Mutation != "" {
		cfg.Mutation = b.Objects[g.Mutation]
	}
	if g.Subscription != "" {
		cfg.Subscription = b.Objects[g.Subscription]
	}
	if o.ExtraTypes != nil {
		for _, n := range o.ExtraTypes {
			cfg.Types = append(cfg.Types, b.Types[n])
		}
	} else {
		for _, n := range g.Order {
			if g.Types[n].Kind == gen.KObject || g.Types[n].Kind == gen.KInput || g.Types[n].Kind == gen.KEnum || g.Types[n].Kind == gen.KScalar {
				cfg.Types = append(cfg.Types, b.Types[n])
			}
		}
	}
	s, err := graphql.NewSchema(cfg)
	if err != nil {
		return nil, fmt.Errorf("bridge: NewSchema: %v", err)
	}
	b.Schema = s
	return b, nil
}
