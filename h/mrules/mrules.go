// Package mrules is M-rules of DESIGN.md: 24 independent brute-force evaluators of the
// validation rules (edition: October-2016 specification / graphql-js 0.8, appendix B) over
// the generator's own document and schema structures. No memoisation, no visitor: every
// rule walks the document directly; fragments are expanded by recursion.
package mrules

import (
	"fmt"
	"math"
	"sort"
	"strconv"
	"strings"

	"verif/h/gen"
)

var RuleNames = []string{
	"ArgumentsOfCorrectType", "DefaultValuesOfCorrectType", "FieldsOnCorrectType", "FragmentsOnCompositeTypes",
	"KnownArgumentNames", "KnownDirectives", "KnownFragmentNames", "KnownTypeNames", "LoneAnonymousOperation",
	"NoFragmentCycles", "NoUndefinedVariables", "NoUnusedFragments", "NoUnusedVariables", "OverlappingFieldsCanBeMerged",
	"PossibleFragmentSpreads", "ProvidedNonNullArguments", "ScalarLeafs", "UniqueArgumentNames", "UniqueFragmentNames",
	"UniqueInputFieldNames", "UniqueOperationNames", "UniqueVariableNames", "VariablesAreInputTypes", "VariablesInAllowedPosition",
}

// V is one violation: what is wrong and the source prefixes a report of it may point at
// (the first characters of the offending node as the document renders it).
type V struct {
	What string
	At   []string
}

// Violations maps rule name -> violations (empty = rule satisfied).
type Violations map[string][]V

// At is the union of acceptable location prefixes of a rule's violations.
func (v Violations) At(rule string) []string {
	var out []string
	for _, x := range v[rule] {
		out = append(out, x.At...)
	}
	return out
}

func (v Violations) Any() bool {
	for _, l := range v {
		if len(l) > 0 {
			return true
		}
	}
	return false
}

func (v Violations) Names() []string {
	var out []string
	for k, l := range v {
		if len(l) > 0 {
			out = append(out, k)
		}
	}
	sort.Strings(out)
	return out
}

type dirDef struct {
	locs map[string]bool
	args []*gen.ArgDef
}

var directives = map[string]*dirDef{
	"skip":       {locs: map[string]bool{"FIELD": true, "FRAGMENT_SPREAD": true, "INLINE_FRAGMENT": true}, args: []*gen.ArgDef{{Name: "if", Type: gen.NonNull(gen.Named("Boolean"))}}},
	"include":    {locs: map[string]bool{"FIELD": true, "FRAGMENT_SPREAD": true, "INLINE_FRAGMENT": true}, args: []*gen.ArgDef{{Name: "if", Type: gen.NonNull(gen.Named("Boolean"))}}},
	"deprecated": {locs: map[string]bool{"FIELD_DEFINITION": true, "ENUM_VALUE": true}, args: []*gen.ArgDef{{Name: "reason", Type: gen.Named("String")}}},
}

type checker struct {
	s *gen.Schema
	d *gen.Doc
	v Violations
	// cycle cuts of the overlap evaluator (documents with fragment cycles are infinite trees)
	setsDone map[*gen.Sel]bool
	inProg   map[[2]*gen.Sel]bool
	// unspec: rules whose verdict the document leaves open (e.g. which of two different
	// definitions of one variable name governs its usages)
	unspec map[string]bool
}

func (c *checker) add(rule, what string, at ...string) { c.v[rule] = append(c.v[rule], V{what, at}) }

func (c *checker) rootType(op *gen.Op) string {
	switch op.Kind {
	case "mutation":
		return c.s.Mutation
	case "subscription":
		return c.s.Subscription
	}
	return c.s.Query
}

func (c *checker) composite(name string) bool { return c.s.Type(name) != nil && c.s.IsComposite(name) }

// fieldDef looks a field up incl. the meta fields.
func (c *checker) fieldDef(parent, name string) *gen.FieldDef {
	if parent == "" || c.s.Type(parent) == nil {
		return nil
	}
	if name == "__typename" && c.composite(parent) {
		return &gen.FieldDef{Name: name, Type: gen.NonNull(gen.Named("String"))}
	}
	if parent == c.s.Query {
		switch name {
		case "__schema":
			return &gen.FieldDef{Name: name, Type: gen.NonNull(gen.Named("__Schema"))}
		case "__type":
			return &gen.FieldDef{Name: name, Type: gen.Named("__Type"), Args: []*gen.ArgDef{{Name: "name", Type: gen.NonNull(gen.Named("String"))}}}
		}
	}
	td := c.s.Type(parent)
	if td.Kind != gen.KObject && td.Kind != gen.KInterface {
		return nil
	}
	return td.Field(name)
}

// walk visits every selection of a selection set with its parent type ("" = unknown).
type selFn func(parent string, sel *gen.Sel)

func (c *checker) walk(parent string, sels []*gen.Sel, fn selFn) {
	for _, s := range sels {
		fn(parent, s)
		switch s.Kind {
		case gen.SField:
			sub := ""
			if fd := c.fieldDef(parent, s.Name); fd != nil {
				sub = fd.Type.Base()
				if c.s.Type(sub) == nil && !strings.HasPrefix(sub, "__") {
					sub = ""
				}
			}
			c.walk(sub, s.Sel, fn)
		case gen.SInline:
			sub := parent
			if s.HasCond {
				sub = ""
				if c.s.Type(s.Cond) != nil {
					sub = s.Cond
				}
			}
			c.walk(sub, s.Sel, fn)
		}
	}
}

func (c *checker) fragParent(f *gen.Frag) string {
	if c.s.Type(f.Cond) != nil {
		return f.Cond
	}
	return ""
}

// everywhere visits all selections of all operations and fragment definitions.
func (c *checker) everywhere(fn selFn) {
	for _, op := range c.d.Ops {
		c.walk(c.rootType(op), op.Sel, fn)
	}
	for _, f := range c.d.Frags {
		c.walk(c.fragParent(f), f.Sel, fn)
	}
}

// ---- literal validity (two-valued, this edition) ----

func LiteralValid(s *gen.Schema, t *gen.TypeRef, v *gen.Value) bool {
	if t.Kind == gen.TNonNull {
		if v == nil {
			return false
		}
		return LiteralValid(s, t.Of, v)
	}
	if v == nil {
		return true
	}
	if v.Kind == gen.VVar {
		return true
	}
	if t.Kind == gen.TList {
		if v.Kind == gen.VList {
			for i := range v.Items {
				if !LiteralValid(s, t.Of, &v.Items[i]) {
					return false
				}
			}
			return true
		}
		return LiteralValid(s, t.Of, v)
	}
	td := s.Type(t.Name)
	if td == nil {
		return true
	}
	switch td.Kind {
	case gen.KInput:
		if v.Kind != gen.VObject {
			return false
		}
		for _, f := range v.Fields {
			if td.Input(f.Name) == nil {
				return false
			}
		}
		for _, in := range td.Inputs {
			var fv *gen.Value
			for i := range v.Fields {
				if v.Fields[i].Name == in.Name {
					fv = &v.Fields[i].Val
				}
			}
			if !LiteralValid(s, in.Type, fv) {
				return false
			}
		}
		return true
	case gen.KEnum:
		return v.Kind == gen.VEnum && td.EnumByName(v.S) != nil
	case gen.KObject, gen.KInterface, gen.KUnion:
		return true // not an input type: other rules complain
	}
	switch t.Name {
	case "Int":
		if v.Kind != gen.VInt {
			return false
		}
		n, err := strconv.ParseInt(v.S, 10, 64)
		return err == nil && n >= math.MinInt32 && n <= math.MaxInt32
	case "Float":
		return v.Kind == gen.VInt || v.Kind == gen.VFloat
	case "String":
		return v.Kind == gen.VString
	case "ID":
		return v.Kind == gen.VString || v.Kind == gen.VInt
	case "Boolean":
		return v.Kind == gen.VBool
	case "Custom":
		return v.Kind == gen.VString && strings.HasPrefix(v.S, "c:")
	}
	return true
}

// ---- the rules ----

func Check(s *gen.Schema, d *gen.Doc) Violations {
	v, _ := CheckU(s, d)
	return v
}

// CheckU also returns the rules that are not judged for this document.
func CheckU(s *gen.Schema, d *gen.Doc) (Violations, map[string]bool) {
	c := &checker{s: s, d: d, v: Violations{}, setsDone: map[*gen.Sel]bool{}, inProg: map[[2]*gen.Sel]bool{}, unspec: map[string]bool{}}
	c.argumentsAndNames()
	c.defaultsAndVariables()
	c.fieldsAndLeafs()
	c.fragmentsAndTypes()
	c.directives()
	c.operations()
	c.cycles()
	c.variableUsage()
	c.unusedFragments()
	c.uniqueness()
	c.possibleSpreads()
	c.overlap()
	return c.v, c.unspec
}

func (c *checker) argDefs(parent string, sel *gen.Sel) []*gen.ArgDef {
	if fd := c.fieldDef(parent, sel.Name); fd != nil {
		return fd.Args
	}
	return nil
}

func findArg(defs []*gen.ArgDef, n string) *gen.ArgDef {
	for _, a := range defs {
		if a.Name == n {
			return a
		}
	}
	return nil
}

func (c *checker) checkArgs(where, nodeAt string, defs []*gen.ArgDef, known bool, args []gen.Arg) {
	if !known {
		return
	}
	for i := range args {
		a := &args[i]
		ad := findArg(defs, a.Name)
		if ad == nil {
			c.add("KnownArgumentNames", where+" argument "+a.Name, a.Name)
			continue
		}
		if !LiteralValid(c.s, ad.Type, &a.Val) {
			c.add("ArgumentsOfCorrectType", fmt.Sprintf("%s argument %s: %s", where, a.Name, a.Val.Render()), a.Val.Render())
		}
	}
	for _, ad := range defs {
		if ad.Type.IsNonNull() {
			found := false
			for _, a := range args {
				if a.Name == ad.Name {
					found = true
				}
			}
			if !found {
				c.add("ProvidedNonNullArguments", where+" lacks "+ad.Name, nodeAt)
			}
		}
	}
}

func (c *checker) dirArgs(where string, ds []gen.Dir) {
	for _, d := range ds {
		if dd := directives[d.Name]; dd != nil {
			c.checkArgs(where+" @"+d.Name, "@"+d.Name, dd.args, true, d.Args)
		}
	}
}

func (c *checker) argumentsAndNames() {
	c.everywhere(func(parent string, sel *gen.Sel) {
		if sel.Kind == gen.SField {
			fd := c.fieldDef(parent, sel.Name)
			if fd != nil {
				c.checkArgs("field "+sel.Name, sel.Key(), fd.Args, true, sel.Args)
			}
		}
		c.dirArgs("selection "+sel.Name+sel.Cond, sel.Dirs)
	})
	for _, op := range c.d.Ops {
		c.dirArgs("operation "+op.Name, op.Dirs)
	}
	for _, f := range c.d.Frags {
		c.dirArgs("fragment "+f.Name, f.Dirs)
	}
}

func (c *checker) defaultsAndVariables() {
	for _, op := range c.d.Ops {
		for _, vd := range op.Vars {
			base := vd.Type.Base()
			known := c.s.Type(base) != nil
			if !known {
				c.add("KnownTypeNames", "variable $"+vd.Name+" type "+base, base)
			} else if !c.s.IsInput(base) {
				c.add("VariablesAreInputTypes", "variable $"+vd.Name+" of type "+vd.Type.String(), vd.Type.String())
			}
			if vd.Default != nil {
				if vd.Type.IsNonNull() {
					c.add("DefaultValuesOfCorrectType", "required variable $"+vd.Name+" has a default", vd.Default.Render())
				} else if known && c.s.IsInput(base) && !LiteralValid(c.s, vd.Type, vd.Default) {
					c.add("DefaultValuesOfCorrectType", "default of $"+vd.Name+": "+vd.Default.Render(), vd.Default.Render())
				}
			}
		}
	}
}

func (c *checker) fieldsAndLeafs() {
	c.everywhere(func(parent string, sel *gen.Sel) {
		if sel.Kind != gen.SField {
			return
		}
		if parent == "" || !c.composite(parent) {
			return
		}
		fd := c.fieldDef(parent, sel.Name)
		if fd == nil {
			c.add("FieldsOnCorrectType", "field "+sel.Name+" on "+parent, sel.Key())
			return
		}
		base := fd.Type.Base()
		leaf := c.s.IsLeaf(base) || base == "String"
		if strings.HasPrefix(base, "__") {
			leaf = base == "__TypeKind" || base == "__DirectiveLocation"
		}
		if leaf && len(sel.Sel) > 0 {
			c.add("ScalarLeafs", "leaf field "+sel.Name+" has a selection", "{")
		}
		if !leaf && len(sel.Sel) == 0 {
			c.add("ScalarLeafs", "composite field "+sel.Name+" has no selection", sel.Key())
		}
	})
}

func (c *checker) fragmentsAndTypes() {
	condCheck := func(where, cond string) {
		td := c.s.Type(cond)
		if td == nil {
			c.add("KnownTypeNames", where+" on "+cond, cond)
			return
		}
		if !c.s.IsComposite(cond) {
			c.add("FragmentsOnCompositeTypes", where+" on "+cond, cond)
		}
	}
	c.everywhere(func(parent string, sel *gen.Sel) {
		switch sel.Kind {
		case gen.SInline:
			if sel.HasCond {
				condCheck("inline fragment", sel.Cond)
			}
		case gen.SSpread:
			if c.d.Frag(sel.Name) == nil {
				c.add("KnownFragmentNames", "spread "+sel.Name, sel.Name)
			}
		}
	})
	for _, f := range c.d.Frags {
		condCheck("fragment "+f.Name, f.Cond)
	}
}

func (c *checker) directives() {
	one := func(where, loc string, ds []gen.Dir) {
		for _, d := range ds {
			dd := directives[d.Name]
			if dd == nil {
				c.add("KnownDirectives", where+" unknown @"+d.Name, "@"+d.Name)
			} else if !dd.locs[loc] {
				c.add("KnownDirectives", where+" misplaced @"+d.Name, "@"+d.Name)
			}
		}
	}
	c.everywhere(func(parent string, sel *gen.Sel) {
		switch sel.Kind {
		case gen.SField:
			one("field "+sel.Name, "FIELD", sel.Dirs)
		case gen.SInline:
			one("inline fragment", "INLINE_FRAGMENT", sel.Dirs)
		case gen.SSpread:
			one("spread "+sel.Name, "FRAGMENT_SPREAD", sel.Dirs)
		}
	})
	for _, op := range c.d.Ops {
		one("operation", strings.ToUpper(op.Kind), op.Dirs)
	}
	for _, f := range c.d.Frags {
		one("fragment "+f.Name, "FRAGMENT_DEFINITION", f.Dirs)
	}
}

func (c *checker) operations() {
	if len(c.d.Ops) > 1 {
		for _, op := range c.d.Ops {
			if op.Name == "" {
				c.add("LoneAnonymousOperation", "anonymous operation among several", opAt(op))
			}
		}
	}
	// the library (pinned by TestValidate_UniqueOperationNames_MultipleAnonymousOperations)
	// counts the empty name of anonymous operations as a name
	seen := map[string]bool{}
	for _, op := range c.d.Ops {
		if seen[op.Name] {
			c.add("UniqueOperationNames", "operation "+op.Name, op.Name, opAt(op))
		}
		seen[op.Name] = true
	}
}

// spreadsIn lists the fragment names spread anywhere inside a selection set.
func spreadsIn(sels []*gen.Sel, out *[]string) {
	for _, s := range sels {
		if s.Kind == gen.SSpread {
			*out = append(*out, s.Name)
		}
		spreadsIn(s.Sel, out)
	}
}

func (c *checker) cycles() {
	// a fragment is on a cycle iff it can reach itself in the spread graph
	for _, f := range c.d.Frags {
		visited := map[string]bool{}
		var reach func(name string) bool
		reach = func(name string) bool {
			fr := c.d.Frag(name)
			if fr == nil {
				return false
			}
			var sp []string
			spreadsIn(fr.Sel, &sp)
			for _, n := range sp {
				if n == f.Name {
					return true
				}
				if !visited[n] {
					visited[n] = true
					if reach(n) {
						return true
					}
				}
			}
			return false
		}
		if reach(f.Name) {
			c.add("NoFragmentCycles", "fragment "+f.Name+" on a cycle", "...")
		}
	}
}

type varUse struct {
	name string
	pos  *gen.TypeRef // expected type at the position (nil = unknown)
}

func (c *checker) usesInValue(v *gen.Value, t *gen.TypeRef, out *[]varUse) {
	switch v.Kind {
	case gen.VVar:
		*out = append(*out, varUse{v.S, t})
	case gen.VList:
		var it *gen.TypeRef
		if t != nil {
			n := t.Nullable()
			if n.Kind == gen.TList {
				it = n.Of
			} else {
				it = nil // list literal where no list is expected: position unknown
			}
		}
		for i := range v.Items {
			c.usesInValue(&v.Items[i], it, out)
		}
	case gen.VObject:
		var td *gen.TypeDef
		if t != nil {
			// an object where a list is expected stands for a list of that one item
			td = c.s.Type(t.Base())
		}
		for i := range v.Fields {
			var ft *gen.TypeRef
			if td != nil && td.Kind == gen.KInput {
				if in := td.Input(v.Fields[i].Name); in != nil {
					ft = in.Type
				}
			}
			c.usesInValue(&v.Fields[i].Val, ft, out)
		}
	}
}

func (c *checker) usesInArgs(defs []*gen.ArgDef, args []gen.Arg, out *[]varUse) {
	for i := range args {
		var t *gen.TypeRef
		if ad := findArg(defs, args[i].Name); ad != nil {
			t = ad.Type
		}
		c.usesInValue(&args[i].Val, t, out)
	}
}

// usesIn collects variable usages of a selection set, following spreads transitively.
func (c *checker) usesIn(parent string, sels []*gen.Sel, visited map[string]bool, out *[]varUse) {
	c.walk(parent, sels, func(p string, sel *gen.Sel) {
		if sel.Kind == gen.SField {
			c.usesInArgs(c.argDefs(p, sel), sel.Args, out)
		}
		for _, d := range sel.Dirs {
			var defs []*gen.ArgDef
			if dd := directives[d.Name]; dd != nil {
				defs = dd.args
			}
			c.usesInArgs(defs, d.Args, out)
		}
		if sel.Kind == gen.SSpread && !visited[sel.Name] {
			visited[sel.Name] = true
			if f := c.d.Frag(sel.Name); f != nil {
				for _, d := range f.Dirs {
					var defs []*gen.ArgDef
					if dd := directives[d.Name]; dd != nil {
						defs = dd.args
					}
					c.usesInArgs(defs, d.Args, out)
				}
				c.usesIn(c.fragParent(f), f.Sel, visited, out)
			}
		}
	})
}

func (c *checker) subType(sub, sup *gen.TypeRef) bool {
	if sup.Kind == gen.TNonNull {
		if sub.Kind == gen.TNonNull {
			return c.subType(sub.Of, sup.Of)
		}
		return false
	}
	if sub.Kind == gen.TNonNull {
		return c.subType(sub.Of, sup)
	}
	if sup.Kind == gen.TList {
		if sub.Kind == gen.TList {
			return c.subType(sub.Of, sup.Of)
		}
		return false
	}
	if sub.Kind == gen.TList {
		return false
	}
	if sub.Name == sup.Name {
		return true
	}
	return c.s.IsAbstract(sup.Name) && c.s.Type(sub.Name) != nil && c.s.Type(sub.Name).Kind == gen.KObject && c.s.IsPossible(sup.Name, sub.Name)
}

func (c *checker) variableUsage() {
	for _, op := range c.d.Ops {
		var uses []varUse
		for _, d := range op.Dirs {
			var defs []*gen.ArgDef
			if dd := directives[d.Name]; dd != nil {
				defs = dd.args
			}
			c.usesInArgs(defs, d.Args, &uses)
		}
		c.usesIn(c.rootType(op), op.Sel, map[string]bool{}, &uses)
		defs := map[string]*gen.VarDef{}
		ambiguous := map[string]bool{}
		for _, vd := range op.Vars {
			if first, dup := defs[vd.Name]; !dup {
				defs[vd.Name] = vd
			} else if first != vd && (!first.Type.Equal(vd.Type) || (first.Default == nil) != (vd.Default == nil)) {
				// two different definitions of one name (UniqueVariableNames reports it): which
				// of them governs the usages is left open
				ambiguous[vd.Name] = true
			}
		}
		used := map[string]bool{}
		for _, u := range uses {
			used[u.name] = true
			vd := defs[u.name]
			if vd == nil {
				c.add("NoUndefinedVariables", "$"+u.name+" in operation "+op.Name, "$"+u.name, opAt(op))
				continue
			}
			if ambiguous[u.name] {
				c.unspec["VariablesInAllowedPosition"] = true
				continue
			}
			if u.pos != nil && c.s.Type(vd.Type.Base()) != nil {
				eff := vd.Type
				if vd.Default != nil && !eff.IsNonNull() {
					eff = gen.NonNull(eff)
				}
				if !c.subType(eff, u.pos) {
					c.add("VariablesInAllowedPosition", fmt.Sprintf("$%s of type %s used where %s is expected", u.name, vd.Type, u.pos), "$"+u.name)
				}
			}
		}
		for _, vd := range op.Vars {
			if !used[vd.Name] {
				c.add("NoUnusedVariables", "$"+vd.Name+" in operation "+op.Name, "$"+vd.Name)
			}
		}
	}
}

func (c *checker) unusedFragments() {
	reach := map[string]bool{}
	var visit func(sels []*gen.Sel)
	visit = func(sels []*gen.Sel) {
		var sp []string
		spreadsIn(sels, &sp)
		for _, n := range sp {
			if !reach[n] {
				reach[n] = true
				if f := c.d.Frag(n); f != nil {
					visit(f.Sel)
				}
			}
		}
	}
	for _, op := range c.d.Ops {
		visit(op.Sel)
	}
	for _, f := range c.d.Frags {
		if !reach[f.Name] {
			c.add("NoUnusedFragments", "fragment "+f.Name, "fragment "+f.Name)
		}
	}
}

func (c *checker) uniqueness() {
	dupArgs := func(where string, args []gen.Arg) {
		seen := map[string]bool{}
		for _, a := range args {
			if seen[a.Name] {
				c.add("UniqueArgumentNames", where+" argument "+a.Name, a.Name)
			}
			seen[a.Name] = true
		}
	}
	var dupFields func(v *gen.Value)
	dupFields = func(v *gen.Value) {
		switch v.Kind {
		case gen.VObject:
			seen := map[string]bool{}
			for i := range v.Fields {
				if seen[v.Fields[i].Name] {
					c.add("UniqueInputFieldNames", "input field "+v.Fields[i].Name, v.Fields[i].Name)
				}
				seen[v.Fields[i].Name] = true
				dupFields(&v.Fields[i].Val)
			}
		case gen.VList:
			for i := range v.Items {
				dupFields(&v.Items[i])
			}
		}
	}
	argsOf := func(where string, args []gen.Arg) {
		dupArgs(where, args)
		for i := range args {
			dupFields(&args[i].Val)
		}
	}
	dirs := func(where string, ds []gen.Dir) {
		for _, d := range ds {
			argsOf(where+" @"+d.Name, d.Args)
		}
	}
	c.everywhere(func(parent string, sel *gen.Sel) {
		if sel.Kind == gen.SField {
			argsOf("field "+sel.Name, sel.Args)
		}
		dirs("selection", sel.Dirs)
	})
	for _, op := range c.d.Ops {
		dirs("operation", op.Dirs)
		seen := map[string]bool{}
		for _, vd := range op.Vars {
			if seen[vd.Name] {
				c.add("UniqueVariableNames", "$"+vd.Name, vd.Name)
			}
			seen[vd.Name] = true
			if vd.Default != nil {
				dupFields(vd.Default)
			}
		}
	}
	seen := map[string]bool{}
	for _, f := range c.d.Frags {
		dirs("fragment", f.Dirs)
		if seen[f.Name] {
			c.add("UniqueFragmentNames", "fragment "+f.Name, f.Name)
		}
		seen[f.Name] = true
	}
}

func (c *checker) typesOverlap(a, b string) bool {
	if a == b {
		return true
	}
	pa, pb := c.s.PossibleTypes(a), c.s.PossibleTypes(b)
	for _, x := range pa {
		for _, y := range pb {
			if x == y {
				return true
			}
		}
	}
	return false
}

func (c *checker) possibleSpreads() {
	c.everywhere(func(parent string, sel *gen.Sel) {
		if parent == "" || !c.composite(parent) {
			return
		}
		switch sel.Kind {
		case gen.SInline:
			if sel.HasCond && c.composite(sel.Cond) && !c.typesOverlap(sel.Cond, parent) {
				c.add("PossibleFragmentSpreads", "inline fragment on "+sel.Cond+" inside "+parent, "...")
			}
		case gen.SSpread:
			if f := c.d.Frag(sel.Name); f != nil && c.composite(f.Cond) && !c.typesOverlap(f.Cond, parent) {
				c.add("PossibleFragmentSpreads", "spread "+sel.Name+" (on "+f.Cond+") inside "+parent)
			}
		}
	})
}

// ---- overlapping fields (spec FieldsInSetCanMerge by full expansion) ----

type fieldAt struct {
	parent string // type of the enclosing selection set ("" unknown)
	sel    *gen.Sel
	def    *gen.FieldDef
}

// expand lists every field of a selection set with fragments expanded (each fragment once
// per expansion, which also cuts cycles).
func (c *checker) expand(parent string, sels []*gen.Sel, visited map[string]bool, out *[]fieldAt) {
	for _, s := range sels {
		switch s.Kind {
		case gen.SField:
			*out = append(*out, fieldAt{parent, s, c.fieldDef(parent, s.Name)})
		case gen.SInline:
			p := parent
			if s.HasCond {
				p = ""
				if c.s.Type(s.Cond) != nil {
					p = s.Cond
				}
			}
			c.expand(p, s.Sel, visited, out)
		case gen.SSpread:
			if visited[s.Name] {
				continue
			}
			visited[s.Name] = true
			if f := c.d.Frag(s.Name); f != nil {
				c.expand(c.fragParent(f), f.Sel, visited, out)
			}
		}
	}
}

func sameArgs(a, b []gen.Arg) bool {
	if len(a) != len(b) {
		return false
	}
	for _, x := range a {
		found := false
		for _, y := range b {
			if x.Name == y.Name && x.Val.Render() == y.Val.Render() {
				found = true
			}
		}
		if !found {
			return false
		}
	}
	return true
}

func (c *checker) isObject(n string) bool {
	td := c.s.Type(n)
	return td != nil && td.Kind == gen.KObject
}

// conflict reports whether two fields with the same response key conflict.
func (c *checker) conflict(a, b fieldAt, exclusive bool, depth int) bool {
	if depth > 40 {
		return false
	}
	pair := [2]*gen.Sel{a.sel, b.sel}
	if c.inProg[pair] {
		return false // already being compared further up: nothing new can be found below
	}
	c.inProg[pair] = true
	defer delete(c.inProg, pair)
	// fields on two different object types can never apply to the same value
	excl := exclusive || (a.parent != b.parent && c.isObject(a.parent) && c.isObject(b.parent))
	if !excl {
		if a.sel.Name != b.sel.Name {
			return true
		}
		if !sameArgs(a.sel.Args, b.sel.Args) {
			return true
		}
	}
	if a.def != nil && b.def != nil && c.shapeDiffers(a.def.Type, b.def.Type) {
		return true
	}
	// merged sub-selections
	if len(a.sel.Sel) > 0 && len(b.sel.Sel) > 0 {
		var fa, fb []fieldAt
		pa, pb := "", ""
		if a.def != nil {
			pa = a.def.Type.Base()
		}
		if b.def != nil {
			pb = b.def.Type.Base()
		}
		c.expand(pa, a.sel.Sel, map[string]bool{}, &fa)
		c.expand(pb, b.sel.Sel, map[string]bool{}, &fb)
		all := append(append([]fieldAt{}, fa...), fb...)
		// every pair across (and within) the two sets that shares a key
		for i := 0; i < len(all); i++ {
			for j := i + 1; j < len(all); j++ {
				if all[i].sel.Key() == all[j].sel.Key() && all[i].sel != all[j].sel {
					if c.conflict(all[i], all[j], excl, depth+1) {
						return true
					}
				}
			}
		}
	}
	return false
}

func (c *checker) shapeDiffers(a, b *gen.TypeRef) bool {
	if a.Kind == gen.TList || b.Kind == gen.TList {
		if a.Kind != gen.TList || b.Kind != gen.TList {
			return true
		}
		return c.shapeDiffers(a.Of, b.Of)
	}
	if a.Kind == gen.TNonNull || b.Kind == gen.TNonNull {
		if a.Kind != gen.TNonNull || b.Kind != gen.TNonNull {
			return true
		}
		return c.shapeDiffers(a.Of, b.Of)
	}
	la := c.s.IsLeaf(a.Name) || c.s.Type(a.Name) == nil
	lb := c.s.IsLeaf(b.Name) || c.s.Type(b.Name) == nil
	if la || lb {
		return a.Name != b.Name
	}
	return false
}

func (c *checker) overlapIn(parent string, sels []*gen.Sel) {
	var fs []fieldAt
	c.expand(parent, sels, map[string]bool{}, &fs)
	for i := 0; i < len(fs); i++ {
		for j := i + 1; j < len(fs); j++ {
			if fs[i].sel.Key() == fs[j].sel.Key() && fs[i].sel != fs[j].sel {
				if c.conflict(fs[i], fs[j], false, 0) {
					c.add("OverlappingFieldsCanBeMerged", "fields "+fs[i].sel.Key(), c.allKeys()...)
					return
				}
			}
		}
	}
	// every nested selection set is a selection set of its own
	for _, f := range fs {
		if len(f.sel.Sel) > 0 && !c.setsDone[f.sel] {
			c.setsDone[f.sel] = true
			p := ""
			if f.def != nil {
				p = f.def.Type.Base()
			}
			c.overlapIn(p, f.sel.Sel)
			if len(c.v["OverlappingFieldsCanBeMerged"]) > 0 {
				return
			}
		}
	}
}

func (c *checker) overlap() {
	for _, op := range c.d.Ops {
		c.overlapIn(c.rootType(op), op.Sel)
	}
	// fragments that no operation reaches are still validated as selection sets
	for _, f := range c.d.Frags {
		if len(c.v["OverlappingFieldsCanBeMerged"]) > 0 {
			return
		}
		c.overlapIn(c.fragParent(f), f.Sel)
	}
}

func opAt(op *gen.Op) string {
	if op.Short && op.Kind == "query" && op.Name == "" && len(op.Vars) == 0 && len(op.Dirs) == 0 {
		return "{"
	}
	return op.Kind
}

// allKeys lists every response key of the document (the overlap rule reports at the
// conflicting fields and at the nested fields that make them conflict).
func (c *checker) allKeys() []string {
	seen := map[string]bool{}
	var out []string
	var walk func(ss []*gen.Sel)
	walk = func(ss []*gen.Sel) {
		for _, s := range ss {
			if s.Kind == gen.SField && !seen[s.Key()] {
				seen[s.Key()] = true
				out = append(out, s.Key())
			}
			walk(s.Sel)
		}
	}
	for _, op := range c.d.Ops {
		walk(op.Sel)
	}
	for _, f := range c.d.Frags {
		walk(f.Sel)
	}
	return out
}
