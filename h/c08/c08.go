// Package c08 decides C08 (print -> parse round trip) on every document the library's
// parser accepts in the viable-prefix enumeration of C03, plus literal payload tables
// (strings, block strings, descriptions with quotes, backslashes, control characters,
// DEL, non-BMP code points, triple quotes, newlines, leading spaces).
package c08

import (
	"fmt"
	"strings"

	"github.com/graphql-go/graphql/language/ast"
	"github.com/graphql-go/graphql/language/printer"

	"verif/h/astx"
	"verif/h/core"
	"verif/h/langx"
	"verif/report"
)

func init() { core.Register("C08", &core.Check{Run: run, Replay: replay}) }

func printDoc(doc *ast.Document) (s string, pan interface{}) {
	defer func() { pan = recover() }()
	out := printer.Print(doc)
	s, _ = out.(string)
	return s, nil
}

// Judge: returns mismatch ("" if fine), whether the library accepted the text, whether it
// is still a viable prefix.
func Judge(text []byte) (bad string, accepted, extend bool) {
	doc, lv, pan := langx.Lib(append([]byte{}, text...))
	if pan != nil {
		return "", false, false // C03/C09 report parser panics
	}
	extend = lv.OK || lv.AtEOF
	if !lv.OK {
		// keep exploring what the grammar considers viable, too
		if _, mv, _ := langx.Model(text); mv.OK || mv.AtEOF {
			extend = true
		}
		return "", false, extend
	}
	before := astx.DumpCanon(doc, true)
	printed, ppan := printDoc(doc)
	if ppan != nil {
		return fmt.Sprintf("Print panicked: %v", ppan), true, extend
	}
	if after := astx.DumpCanon(doc, true); after != before {
		return "Print modified the AST it was given", true, extend
	}
	doc2, v2, pan2 := langx.Lib([]byte(printed))
	if pan2 != nil {
		return fmt.Sprintf("parsing the printed text panicked: %v (printed %q)", pan2, printed), true, extend
	}
	if !v2.OK {
		return fmt.Sprintf("the printed text does not parse: %s (printed %q)", firstLine(v2.Msg), printed), true, extend
	}
	a, b := astx.DumpCanon(doc, false), astx.DumpCanon(doc2, false)
	if a != b {
		return fmt.Sprintf("round trip changed the AST: before %s, after %s (printed %q)", a, b, printed), true, extend
	}
	printed2, _ := printDoc(doc2)
	if printed2 != printed {
		return fmt.Sprintf("printing is not stable: first %q, second %q", printed, printed2), true, extend
	}
	return "", true, extend
}

func firstLine(s string) string {
	if i := strings.IndexByte(s, '\n'); i >= 0 {
		return s[:i]
	}
	return s
}

func sigOf(bad string) string {
	f := strings.Fields(bad)
	if len(f) > 5 {
		f = f[:5]
	}
	return strings.Join(f, " ")
}

// payload units for string contents (source spellings)
var stringUnits = []string{"a", " ", `\"`, `\\`, `\n`, `\t`, `\u0007`, "\x7f", `\u007f`, "é", "\U0001F600", `é`, "/", `\/`, `\r`, "'", "#", "{", "\ufffd", `\uFFFD`}
var blockUnits = []string{"a", " ", `"`, `\"""`, "\n", "\t", `\`, "é", "\U0001F600", "\r", "  ", "#"}

// templates with one literal slot
var templates = []string{
	`{ a(x: %s) }`,
	`query($v: String = %s) { a(x: $v) }`,
	`{ a @d(x: [%s, {k: %s}]) }`,
	`%s type T { f: Int }`,
	`type T { %s f(%s a: String = %s): Int @d(x: %s) }`,
	`%s enum E { %s A %s B }`,
	`%s scalar S @d(x: %s)`,
	`%s directive @d(%s a: Int) on FIELD`,
	`%s input I { %s a: String = %s }`,
	`%s union U = A | B`,
	`%s interface I { %s f: Int }`,
}

func run(c *core.Ctx) {
	c.R.Rule = "case = a text the library's parser accepts: every accepted sentence of the viable-prefix token enumeration over 6 alphabets, every accepted text within two token edits of 18 long sentences that span all productions, plus templates with every short literal payload (quoted strings and block strings built from units with quotes, backslashes, escapes for control characters, DEL, non-BMP characters, triple quotes, newlines, indentation) in argument, default-value, directive-argument and description positions; non-trivial = all (only accepted texts are counted); distinct texts"
	c.R.Assumptions = []string{"the parser is judged by C03; here it only supplies ASTs and re-parses printed text", "structural equality = canonical dump of all exported AST fields without locations", "Go toolchain"}
	qi := 0
	if !c.Quick() {
		qi = 1
	}
	visit := func(kind string, toks []string, text []byte) bool {
		bad, acc, ext := Judge(text)
		if langx.Quiet {
			return ext
		}
		c.R.Transitions += uint64(len(toks) + 1)
		if acc {
			c.R.Evaluations++
			c.R.States++
			c.R.Nontriv(report.H(string(text)))
			c.R.Count("accepted_"+kind, 1)
			if c.R.WantSample() {
				c.R.Sample(map[string]interface{}{"source": kind, "text": string(text)})
			}
		}
		if bad != "" {
			c.Mismatch(classify(string(text), bad), sigOf(bad), fmt.Sprintf("%q: %s", text, bad), map[string]interface{}{"text": string(text)})
		}
		return ext
	}
	// neighbourhoods of long sentences (every production, deep inside definitions)
	{
		window := c.Pick(1, 2)
		c.R.Bounds["corpus_sentences"] = len(langx.Corpus)
		c.R.Bounds["corpus_second_edit_window"] = window
		langx.Neighbourhood(window, c.Shard, c.NShards, langx.ReducedEditAlphabet, func(seed int, toks []string, text []byte) {
			visit("corpus-edits", toks, text)
		})
	}
	for _, a := range langx.Alphabets {
		if c.Expired() {
			return
		}
		a := a
		ml := a.MaxLen[qi]
		if a.Name == "full" && c.Quick() {
			ml-- // the printer is ~10x slower than the parser; the full alphabet is C03's
		}
		if c.Quick() && ml > 10 {
			ml = 10 // long variable-definition sentences are C03's; printing them adds nothing new
		}
		c.R.Bounds["viable_prefix_tokens_"+a.Name] = ml
		langx.TokenDFS(a, ml, c.Shard, c.NShards, func(toks []string, text []byte) bool {
			if len(toks)%4 == 0 && c.Expired() {
				return false
			}
			return visit(a.Name, toks, text)
		})
	}
	// literal payloads
	maxUnits := c.Pick(3, 4)
	c.R.Bounds["payload_units"] = maxUnits
	idx := 0
	var payloads []string
	var gen func(units []string, open, close string, cur string, n int)
	gen = func(units []string, open, close string, cur string, n int) {
		payloads = append(payloads, open+cur+close)
		if n == 0 {
			return
		}
		for _, u := range units {
			gen(units, open, close, cur+u, n-1)
		}
	}
	gen(stringUnits, `"`, `"`, "", maxUnits)
	gen(blockUnits, `"""`, `"""`, "", maxUnits)
	// multi-line texts: lines made of letters and blanks, as block strings (raw line ends) and
	// as quoted strings (escaped line ends), longer than the general payloads
	lineLen := c.Pick(5, 6)
	c.R.Bounds["multi_line_payload_units"] = lineLen
	gen([]string{"a", " ", "\n", "\t"}, `"""`, `"""`, "", lineLen)
	gen([]string{"a", " ", `\n`, `\t`}, `"`, `"`, "", lineLen)
	c.R.Bounds["payloads"] = len(payloads)
	for _, tpl := range templates {
		slots := strings.Count(tpl, "%s")
		for _, p := range payloads {
			if c.Mine(idx) {
				args := make([]interface{}, slots)
				for i := range args {
					args[i] = p
				}
				visit("payload", nil, []byte(fmt.Sprintf(tpl, args...)))
			}
			idx++
		}
		if c.Expired() {
			return
		}
	}
}

func classify(text, bad string) string { return "" }

func replay(c *core.Ctx, p map[string]interface{}) (bool, string) {
	text, _ := p["text"].(string)
	if bad, _, _ := Judge([]byte(text)); bad != "" {
		return false, fmt.Sprintf("%q: %s", text, bad)
	}
	return true, "print/parse round trip preserves the AST"
}
