// Package world is the environment of executions: the instrumented callbacks installed in
// bridged schemas. It decides (through the explorer) what every resolver invocation does,
// records what the library told each callback, and answers the reference model's questions
// about those decisions.
package world

import (
	"context"
	"errors"
	"strconv"
	"strings"

	"github.com/graphql-go/graphql"
	"github.com/graphql-go/graphql/language/ast"

	"verif/h/gen"
	"verif/h/model"
)

type Chooser interface {
	Dev(n int, label string) int
}

// Call is what one resolver invocation was told.
type Call struct {
	Path       string
	N          int
	Outcome    model.Outcome
	Source     string
	ParentType string
	Field      string
	ReturnType string
	Args       string
	ArgsNil    bool
	Occ        int
	OccStarts  []int
	Seq        int

	RootOK, SchemaOK, CtxOK, OpOK, FragsOK bool
	Vars                                   string
	InfoPath                               string
}

type TypeCall struct {
	Abstract string
	ValueID  string
	Path     string
	CtxOK    bool
	Field    string
}

// TypeOfCall is one IsTypeOf invocation.
type TypeOfCall struct {
	Object  string
	ValueID string
	Path    string
	CtxOK   bool
	Field   string
}

type World struct {
	G        *gen.Schema
	X        Chooser
	Alphabet []model.Outcome // index 0 must be OK

	decided map[string]model.Outcome
	rt      map[string]string
	Calls   map[string]*Call
	Order   []*Call
	Types   []*TypeCall
	TypeOfs []*TypeOfCall
	Events  []string

	// expectations about per-request values (checked in every callback)
	Root    interface{}
	Ctx     context.Context
	OpName  string
	NFrags  int
	SchemaQ *graphql.Object
	// MutateArgs makes every resolver scribble on its Args map after recording it
	MutateArgs bool
	// AllDeferred makes every successful resolver defer its value (and every list item)
	AllDeferred bool
}

func New(g *gen.Schema) *World {
	w := &World{G: g, Alphabet: []model.Outcome{model.OK}}
	w.ResetAll()
	return w
}

// ResetAll forgets decisions and logs (new execution of the explorer).
func (w *World) ResetAll() {
	w.decided = map[string]model.Outcome{}
	w.rt = map[string]string{}
	w.ResetLog()
}

// ResetLog forgets the call log but keeps the decisions (same case, next entry point).
func (w *World) ResetLog() {
	w.Calls = map[string]*Call{}
	w.Order = nil
	w.Types = nil
	w.TypeOfs = nil
	w.Events = nil
}

func (w *World) OutcomeAt(path string) model.Outcome { return w.decided[path] }

func (w *World) decide(path string) model.Outcome {
	if o, ok := w.decided[path]; ok {
		return o
	}
	o := model.OK
	if w.X != nil && len(w.Alphabet) > 1 {
		o = w.Alphabet[w.X.Dev(len(w.Alphabet), "outcome")]
	}
	w.decided[path] = o
	return o
}

func (w *World) RuntimeType(path string, declared string) string {
	key := path + "|" + declared
	if t, ok := w.rt[key]; ok {
		return t
	}
	poss := w.G.PossibleTypes(declared)
	base := 0
	if i := strings.LastIndexByte(path, '/'); i >= 0 {
		if n, err := strconv.Atoi(path[i+1:]); err == nil {
			base = n
		}
	}
	c := 0
	if w.X != nil && len(poss) > 1 {
		c = w.X.Dev(len(poss), "runtime-type")
	}
	t := poss[(base+c)%len(poss)]
	w.rt[key] = t
	return t
}

func sourceID(src interface{}) string {
	switch s := src.(type) {
	case *model.Obj:
		if s == nil {
			return "<nil obj>"
		}
		return s.ID
	case map[string]interface{}:
		if id, ok := s["__id"].(string); ok {
			return id
		}
		return "<map>"
	case nil:
		return "<nil>"
	}
	return "<other>"
}

type ErrAt struct{ Path string }

func (e ErrAt) Error() string { return "E@" + e.Path }

func (w *World) Resolve(typeName string, f *gen.FieldDef, p graphql.ResolveParams) (interface{}, error) {
	path := model.PathString(p.Info.Path.AsArray())
	c := w.Calls[path]
	if c == nil {
		c = &Call{Path: path}
		w.Calls[path] = c
		w.Order = append(w.Order, c)
	}
	c.N++
	c.Seq = len(w.Events)
	c.Source = sourceID(p.Source)
	c.Field = p.Info.FieldName
	if p.Info.ParentType != nil {
		c.ParentType = p.Info.ParentType.Name()
	}
	if p.Info.ReturnType != nil {
		c.ReturnType = p.Info.ReturnType.String()
	}
	c.ArgsNil = p.Args == nil
	c.Args = model.Canon(toPlain(p.Args))
	c.Occ = len(p.Info.FieldASTs)
	c.OccStarts = c.OccStarts[:0]
	for _, a := range p.Info.FieldASTs {
		if a != nil && a.Loc != nil {
			c.OccStarts = append(c.OccStarts, a.Loc.Start)
		}
	}
	c.RootOK = sameRoot(p.Info.RootValue, w.Root)
	c.CtxOK = p.Context == w.Ctx
	c.SchemaOK = p.Info.Schema.QueryType() == w.SchemaQ
	c.FragsOK = len(p.Info.Fragments) == w.NFrags
	c.OpOK = false
	if od, ok := p.Info.Operation.(*ast.OperationDefinition); ok && od != nil {
		name := ""
		if n := od.GetName(); n != nil {
			name = n.Value
		}
		c.OpOK = name == w.OpName
	}
	c.Vars = model.Canon(toPlain(p.Info.VariableValues))
	if w.MutateArgs && p.Args != nil {
		p.Args["__scribble"] = path
		for k := range p.Args {
			if k != "__scribble" {
				p.Args[k] = "overwritten by " + path
			}
		}
	}
	w.Events = append(w.Events, "resolve "+path)
	o := w.decide(path)
	c.Outcome = o
	raw := func() interface{} { return model.RawValue(w.G, w, f.Type, path) }
	if w.AllDeferred && o == model.OK {
		// every value is handed over as a thunk, every list item as a thunk of its own
		v := raw()
		if l, ok := v.([]interface{}); ok {
			items := make([]interface{}, len(l))
			for i := range l {
				e := l[i]
				items[i] = func() (interface{}, error) { return e, nil }
			}
			v = items
		}
		return func() (interface{}, error) { return v, nil }, nil
	}
	switch o {
	case model.OK:
		return raw(), nil
	case model.Nil:
		return nil, nil
	case model.Err:
		return nil, ErrAt{path}
	case model.ValErr:
		return raw(), ErrAt{path}
	case model.Panic:
		panic(ErrAt{path})
	case model.ThunkOK:
		v := raw()
		return func() (interface{}, error) { w.Events = append(w.Events, "thunk "+path); return v, nil }, nil
	case model.ThunkErr:
		return func() (interface{}, error) { w.Events = append(w.Events, "thunk "+path); return nil, ErrAt{path} }, nil
	case model.ThunkNil:
		return func() (interface{}, error) { w.Events = append(w.Events, "thunk "+path); return nil, nil }, nil
	}
	return raw(), nil
}

func sameRoot(a, b interface{}) bool {
	am, ok1 := a.(map[string]interface{})
	bm, ok2 := b.(map[string]interface{})
	if ok1 && ok2 {
		if len(am) == 0 && len(bm) == 0 {
			return true
		}
		return am["__id"] == bm["__id"]
	}
	return a == b
}

func toPlain(m map[string]interface{}) interface{} {
	if m == nil {
		return map[string]interface{}{}
	}
	return m
}

func (w *World) ResolveType(abstract string, p graphql.ResolveTypeParams) string {
	tc := &TypeCall{Abstract: abstract, CtxOK: p.Context == w.Ctx, Field: p.Info.FieldName}
	if p.Info.Path != nil {
		tc.Path = model.PathString(p.Info.Path.AsArray())
	}
	w.Types = append(w.Types, tc)
	if o, ok := p.Value.(*model.Obj); ok && o != nil {
		tc.ValueID = o.ID
		return o.Type
	}
	return ""
}

func (w *World) IsTypeOf(object string, p graphql.IsTypeOfParams) bool {
	tc := &TypeOfCall{Object: object, CtxOK: p.Context == w.Ctx, Field: p.Info.FieldName}
	if p.Info.Path != nil {
		tc.Path = model.PathString(p.Info.Path.AsArray())
	}
	w.TypeOfs = append(w.TypeOfs, tc)
	if o, ok := p.Value.(*model.Obj); ok && o != nil {
		tc.ValueID = o.ID
		return o.Type == object
	}
	return false
}

func (w *World) Subscribe(f *gen.FieldDef, p graphql.ResolveParams) (interface{}, error) {
	return nil, errors.New("world: no subscription source configured")
}
