// Package c09 decides C09 (no input makes a public entry point panic, hang or return a
// malformed result): every text of the viable-prefix token enumeration and of the byte
// enumeration goes to Do and Subscribe; every AST the library's parser accepts goes,
// UNVALIDATED, to ValidateDocument, PlanQuery, Execute, ExecuteSubscription, PlanCache.Get
// (both modes) and the printer; plus generated fragment topologies (cycles), variable maps
// and zero-valued parameters. Termination is judged by the deterministic step counter.
package c09

import (
	"encoding/json"
	"fmt"
	"strings"
	"time"

	"github.com/graphql-go/graphql"
	"github.com/graphql-go/graphql/language/ast"
	"github.com/graphql-go/graphql/language/printer"
	"github.com/graphql-go/graphql/vstep"

	"verif/h/bridge"
	"verif/h/core"
	"verif/h/execx"
	"verif/h/gen"
	"verif/h/langx"
	"verif/report"
)

func init() { core.Register("C09", &core.Check{Run: run, Replay: replay}) }

const stepLimit = 400000

type env struct {
	f     *execx.Fixture
	cache *graphql.PlanCache
	ncach *graphql.PlanCache
	n     int
}

func newEnv() (*env, error) {
	f, err := execx.NewFixture(gen.Kitchen(), bridge.Options{})
	if err != nil {
		return nil, err
	}
	return &env{f: f, cache: graphql.NewPlanCache(graphql.PlanCacheOptions{MaxEntries: 4}), ncach: graphql.NewPlanCache(graphql.PlanCacheOptions{MaxEntries: 4, Normalize: true})}, nil
}

// guard runs fn under the step horizon and converts a panic into a mismatch.
func guard(what string, fn func()) (bad string) {
	vstep.Reset(stepLimit)
	defer func() {
		r := recover()
		blown := vstep.Blown
		vstep.Reset(0)
		if blown {
			bad = fmt.Sprintf("%s did not finish within %d steps (function entries + loop iterations)", what, stepLimit)
			return
		}
		if r != nil {
			bad = fmt.Sprintf("%s panicked: %v", what, r)
		}
	}()
	fn()
	return ""
}

func checkResult(what string, r *graphql.Result, parsedOK, validOK bool) string {
	if r == nil {
		return what + " returned nil"
	}
	if _, err := json.Marshal(r); err != nil {
		return fmt.Sprintf("%s: result is not serialisable to JSON: %v", what, err)
	}
	hasData := r.Data != nil
	if m, ok := r.Data.(map[string]interface{}); ok && m == nil {
		hasData = false
	}
	if (!parsedOK || !validOK) && hasData {
		return fmt.Sprintf("%s: data present although parse_ok=%v validation_ok=%v", what, parsedOK, validOK)
	}
	if !hasData && len(r.Errors) == 0 {
		return what + ": neither data nor errors"
	}
	return ""
}

func drain(ch chan *graphql.Result) ([]*graphql.Result, string) {
	var out []*graphql.Result
	for i := 0; i < 4; i++ {
		select {
		case r, ok := <-ch:
			if !ok {
				return out, ""
			}
			out = append(out, r)
		case <-time.After(3 * time.Second):
			return out, "result channel neither delivers nor closes (3 s, no source is involved)"
		}
	}
	return out, ""
}

// judgeText sends a request text through the text-level entry points.
func (e *env) judgeText(text string) (bad string, accepted bool) {
	e.f.W.X = nil
	e.f.W.ResetAll()
	var doc *ast.Document
	var perr error
	if b := guard("parser.Parse", func() { doc, perr = execx.Parse(text) }); b != "" {
		return b, false
	}
	parsedOK := perr == nil
	validOK := false
	if parsedOK {
		var vr graphql.ValidationResult
		if b := guard("ValidateDocument", func() { vr = graphql.ValidateDocument(&e.f.B.Schema, doc, nil) }); b != "" {
			return b, true
		}
		validOK = vr.IsValid
		if !vr.IsValid && len(vr.Errors) == 0 {
			return "ValidateDocument: invalid without errors", true
		}
	}
	var r *graphql.Result
	if b := guard("Do", func() {
		r = graphql.Do(graphql.Params{Schema: e.f.B.Schema, RequestString: text, RootObject: e.f.Root, Context: e.f.Ctx})
	}); b != "" {
		return b, parsedOK
	}
	if b := checkResult("Do", r, parsedOK, validOK); b != "" {
		return b, parsedOK
	}
	// the same request with every value deferred (thunks at every level, list items one by
	// one): the response is still well-formed
	if parsedOK && validOK {
		e.f.W.AllDeferred = true
		var rd *graphql.Result
		b := guard("Do with deferred values", func() {
			rd = graphql.Do(graphql.Params{Schema: e.f.B.Schema, RequestString: text, RootObject: e.f.Root, Context: e.f.Ctx})
		})
		e.f.W.AllDeferred = false
		if b != "" {
			return b, parsedOK
		}
		if b := checkResult("Do with deferred values", rd, parsedOK, validOK); b != "" {
			return b, parsedOK
		}
	}
	// Subscribe: must deliver at least one result or close (kitchen has no stream source)
	var rs []*graphql.Result
	var hang string
	if b := guard("Subscribe", func() {
		rs, hang = drain(graphql.Subscribe(graphql.Params{Schema: e.f.B.Schema, RequestString: text, RootObject: e.f.Root, Context: e.f.Ctx}))
	}); b != "" {
		return b, parsedOK
	}
	if hang != "" {
		return "Subscribe: " + hang, parsedOK
	}
	for _, sr := range rs {
		if _, err := json.Marshal(sr); err != nil {
			return "Subscribe: result not serialisable: " + err.Error(), parsedOK
		}
	}
	for _, c := range []*graphql.PlanCache{e.cache, e.ncach, nil} {
		c := c
		var pr graphql.PlanResult
		if b := guard("PlanCache.Get", func() { pr = c.Get(&e.f.B.Schema, text, "") }); b != "" {
			return b, parsedOK
		}
		if pr.Plan == nil && len(pr.Errors) == 0 {
			return "PlanCache.Get: neither plan nor errors", parsedOK
		}
		if pr.Plan != nil && (!parsedOK || !validOK) {
			return "PlanCache.Get: a plan for a request that does not parse or validate", parsedOK
		}
	}
	if !parsedOK {
		return "", false
	}
	return e.judgeAST(doc), true
}

// judgeAST hands an (unvalidated) AST to the AST-level entry points.
func (e *env) judgeAST(doc *ast.Document) string {
	if b := guard("PlanQuery", func() { graphql.PlanQuery(&e.f.B.Schema, doc, "") }); b != "" {
		return b
	}
	var r *graphql.Result
	if b := guard("Execute", func() {
		r = graphql.Execute(graphql.ExecuteParams{Schema: e.f.B.Schema, AST: doc, Root: e.f.Root, Context: e.f.Ctx})
	}); b != "" {
		return b
	}
	if _, err := json.Marshal(r); err != nil {
		return "Execute: result not serialisable: " + err.Error()
	}
	if r == nil || (r.Data == nil && len(r.Errors) == 0) {
		return "Execute: neither data nor errors"
	}
	// every assignment of the Boolean variables the document declares (variable-driven
	// directives decide per request what is collected), unvalidated through Execute and
	// through a plan that is prepared once
	if names := boolVars(doc); len(names) > 0 {
		var plan *graphql.Plan
		guard("PlanQuery", func() { plan, _ = graphql.PlanQuery(&e.f.B.Schema, doc, "") })
		for k := 0; k < 1<<uint(len(names)); k++ {
			args := map[string]interface{}{}
			for i, n := range names {
				args[n] = k>>uint(i)&1 == 1
			}
			var rv *graphql.Result
			if b := guard(fmt.Sprintf("Execute with %v", args), func() {
				rv = graphql.Execute(graphql.ExecuteParams{Schema: e.f.B.Schema, AST: doc, Root: e.f.Root, Context: e.f.Ctx, Args: args})
			}); b != "" {
				return b
			}
			if _, err := json.Marshal(rv); err != nil {
				return fmt.Sprintf("Execute with %v: result not serialisable: %v", args, err)
			}
			if rv == nil || (rv.Data == nil && len(rv.Errors) == 0) {
				return fmt.Sprintf("Execute with %v: neither data nor errors", args)
			}
			if plan != nil {
				if b := guard(fmt.Sprintf("ExecutePlan with %v", args), func() {
					rv = graphql.ExecutePlan(plan, graphql.ExecuteParams{Schema: e.f.B.Schema, Root: e.f.Root, Context: e.f.Ctx, Args: args})
				}); b != "" {
					return b
				}
				if _, err := json.Marshal(rv); err != nil {
					return fmt.Sprintf("ExecutePlan with %v: result not serialisable: %v", args, err)
				}
			}
		}
	}
	var hang string
	if b := guard("ExecuteSubscription", func() {
		_, hang = drain(graphql.ExecuteSubscription(graphql.ExecuteParams{Schema: e.f.B.Schema, AST: doc, Root: e.f.Root, Context: e.f.Ctx}))
	}); b != "" {
		return b
	}
	if hang != "" {
		return "ExecuteSubscription: " + hang
	}
	if b := guard("printer.Print", func() { printer.Print(doc) }); b != "" {
		return b
	}
	return ""
}

// fragment topologies: 1 operation + up to 3 fragments, every body from a small menu incl.
// spreads of every fragment (cycles, self-spreads, unused and undefined fragments)
func topologies(thorough bool) []string {
	// all fragments are on O and reached through the self-typed field o, so that a spread
	// cycle can also pass through a field (fragment A on O { o { ...A } })
	bodies := []string{"x", "...A", "...B", "o{...A}", "o{...B}", "...A ...B", "... on O{...B}", "o{x ...C}", "...Z", "...C"}
	if !thorough {
		bodies = bodies[:7]
	}
	// valid documents over lists, lists of lists and abstract list items (deferred-value pass)
	out := []string{"{l{x o{y l{x}}} ll{x y} li{x ... on O{y o{x}}} ln{n}}", "{o{l{o{l{x}}}} u{... on O{l{y}}}}"}
	for _, op := range []string{"{a}", "{o{...A}}", "{o{...A ...B}}", "{o{o{...B}}}", "query Q{o{...A}} query R{o{...B}}", "{...A}",
		// the same spreads below same-key fields of two object types (compared as mutually exclusive)
		"{i{... on O{o{...A}} ... on P{o{...A}}}}", "{i{... on O{o{...A}} ... on P{o{...B}}}}",
		// type conditions that name nothing, a scalar, an input object
		"{... on Nope{a} o{... on Nope{x} ...A}}", "{o{... on String{x} ... on In{a} ...B}}",
		// spreads behind a variable-driven directive
		"query($v:Boolean!){o{...A @include(if:$v) ...A @skip(if:$v) ...B @include(if:$v)}}"} {
		for _, a := range bodies {
			for _, b := range bodies {
				out = append(out, fmt.Sprintf("%s fragment A on O{%s} fragment B on O{%s}", op, a, b))
				if thorough {
					for _, c := range bodies[:6] {
						out = append(out, fmt.Sprintf("%s fragment A on O{%s} fragment B on O{%s} fragment C on O{%s}", op, a, b, c))
					}
				}
			}
		}
	}
	return out
}

var varQueries = []string{
	`query($x: Int, $e: E, $in: In, $l: [Int!], $s: String! = "d") { f(x: $x, y: $e, in: $in) }`,
	`query($c: Custom, $ll: [[In]]) { a }`,
}

var varValues = []interface{}{nil, true, 0, 1, 1 << 31, -1 << 40, 1.5, "x", "A", "1", []interface{}{}, []interface{}{1}, []interface{}{nil}, []interface{}{[]interface{}{1}},
	map[string]interface{}{}, map[string]interface{}{"a": 1}, map[string]interface{}{"a": 1, "zz": 2}, map[string]interface{}{"a": nil}, map[string]interface{}{"a": 1, "d": map[string]interface{}{"k": 5}},
	map[string]interface{}{"a": "x", "b": "y", "c": 3}, struct{ A int }{1}, []string{"a"}, map[string]string{"a": "b"}, make(chan int), func() {}}

func run(c *core.Ctx) {
	e, err := newEnv()
	if err != nil {
		c.R.HarnessError("fixture: %v", err)
		return
	}
	c.R.Rule = "case = (text or AST, entry point): every text of the token enumeration (6 alphabets), of the token-edit neighbourhoods of 18 long sentences and of the byte enumeration to Do, Subscribe, PlanCache.Get x3; every parser-accepted AST unvalidated to ValidateDocument, PlanQuery, Execute, ExecuteSubscription, Print; fragment topologies with cycles; variable maps of arbitrary Go values; zero-valued parameters. non-trivial = parser-accepted texts; distinct texts"
	c.R.Assumptions = []string{"termination judged by the instrumenter's step counter (function entries + loop iterations) with horizon 400000, far above the polynomial cost of inputs of <= 13 tokens", "a 3 s wall-clock wait only guards reads from subscription channels, where no source is involved", "Go toolchain"}
	qi := 0
	if !c.Quick() {
		qi = 1
	}
	visit := func(kind string, toks []string, text []byte) bool {
		_, lv, _ := langx.Lib(append([]byte{}, text...))
		ext := lv.OK || lv.AtEOF
		if langx.Quiet {
			return ext
		}
		bad, acc := e.judgeText(string(text))
		c.R.Evaluations++
		c.R.States++
		c.R.Transitions += 5
		if acc {
			c.R.Transitions += 5
			c.R.Nontriv(report.H(string(text)))
			if c.R.WantSample() {
				c.R.Sample(map[string]interface{}{"source": kind, "text": string(text), "parser_accepts": true})
			}
		}
		if bad != "" {
			c.Mismatch(classify(string(text), bad), sigOf(bad), fmt.Sprintf("%q: %s", text, bad), map[string]interface{}{"text": string(text)})
		}
		return ext
	}
	// generated topologies first (cheap, deep)
	tops := topologies(!c.Quick())
	c.R.Bounds["fragment_topologies"] = len(tops)
	for i, t := range tops {
		if c.Mine(i) {
			visit("topology", nil, []byte(t))
		}
	}
	// variables
	idx := 0
	for _, q := range varQueries {
		for _, name := range []string{"x", "e", "in", "l", "s", "c", "ll"} {
			for _, v := range varValues {
				if c.Mine(idx) {
					var r *graphql.Result
					bad := guard("Do with variables", func() {
						r = graphql.Do(graphql.Params{Schema: e.f.B.Schema, RequestString: q, VariableValues: map[string]interface{}{name: v}, RootObject: e.f.Root, Context: e.f.Ctx})
					})
					if bad == "" {
						bad = checkResult("Do with variables", r, true, true)
					}
					c.R.Evaluations++
					c.R.States++
					if bad != "" {
						c.Mismatch("", sigOf(bad), fmt.Sprintf("%q with $%s=%#v: %s", q, name, v, bad), map[string]interface{}{"text": q, "var": name, "val": fmt.Sprintf("%#v", v)})
					}
				}
				idx++
			}
		}
	}
	// zero-valued parameters
	if c.Shard == 0 {
		zero := map[string]func(){
			"Do(Params{})":                         func() { graphql.Do(graphql.Params{}) },
			"Do(empty request)":                    func() { graphql.Do(graphql.Params{Schema: e.f.B.Schema}) },
			"Execute(ExecuteParams{})":             func() { graphql.Execute(graphql.ExecuteParams{}) },
			"Execute(nil AST)":                     func() { graphql.Execute(graphql.ExecuteParams{Schema: e.f.B.Schema}) },
			"ExecutePlan(nil)":                     func() { graphql.ExecutePlan(nil, graphql.ExecuteParams{}) },
			"PlanQuery(nil, nil)":                  func() { graphql.PlanQuery(nil, nil, "") },
			"ValidateDocument(nil schema)":         func() { graphql.ValidateDocument(nil, &ast.Document{}, nil) },
			"ValidateDocument(nil doc)":            func() { graphql.ValidateDocument(&e.f.B.Schema, nil, nil) },
			"PlanCache.Get(nil schema)":            func() { e.cache.Get(nil, "{a}", "") },
			"Subscribe(Params{})":                  func() { drain(graphql.Subscribe(graphql.Params{})) },
			"ExecuteSubscription(ExecuteParams{})": func() { drain(graphql.ExecuteSubscription(graphql.ExecuteParams{})) },
			"Print(nil)":                           func() { printer.Print(nil) },
			"Print(empty document)":                func() { printer.Print(&ast.Document{}) },
			"Execute(unknown operation name)": func() {
				d, _ := execx.Parse("{a}")
				graphql.Execute(graphql.ExecuteParams{Schema: e.f.B.Schema, AST: d, OperationName: "Nope"})
			},
		}
		for name, fn := range zero {
			c.R.Evaluations++
			c.R.States++
			if bad := guard(name, fn); bad != "" {
				c.Mismatch(classifyZero(name), "zero "+name, bad, map[string]interface{}{"zero": name})
			}
		}
	}
	// neighbourhoods of long sentences: single edits (quick), nearby pairs (thorough)
	{
		window := c.Pick(0, 1)
		c.R.Bounds["corpus_sentences"] = len(langx.Corpus)
		c.R.Bounds["corpus_second_edit_window"] = window
		langx.Neighbourhood(window, c.Shard, c.NShards, langx.ReducedEditAlphabet, func(seed int, toks []string, text []byte) {
			visit("corpus-edits", toks, text)
		})
	}
	for _, a := range langx.Alphabets {
		if c.Expired() {
			return
		}
		a := a
		ml := a.MaxLen[qi] - 3
		if a.Name == "variable-definitions" || a.Name == "full" {
			ml = a.MaxLen[qi] - 2
		}
		c.R.Bounds["viable_prefix_tokens_"+a.Name] = ml
		langx.TokenDFS(a, ml, c.Shard, c.NShards, func(toks []string, text []byte) bool {
			if len(toks)%4 == 0 && c.Expired() {
				return false
			}
			return visit(a.Name, toks, text)
		})
	}
	maxUnits := c.Pick(4, 5)
	c.R.Bounds["character_units"] = maxUnits
	langx.Units(maxUnits, c.Shard, c.NShards, func(text []byte) {
		visit("units", nil, append([]byte{}, text...))
		visit("units-in-braces", nil, append(append([]byte("{ a "), text...), " }"...))
	})
	maxBytes := c.Pick(3, 4)
	c.R.Bounds["bytes"] = maxBytes
	langx.Bytes(maxBytes, c.Shard, c.NShards, func(text []byte) {
		visit("bytes", nil, append([]byte{}, text...))
		visit("bytes-in-braces", nil, append(append([]byte("{ a "), text...), " }"...))
	})
}

// boolVars: names of the variables of (non-null) Boolean type declared by the first
// operation of a document, at most three.
func boolVars(doc *ast.Document) (names []string) {
	defer func() { recover() }()
	for _, d := range doc.Definitions {
		op, ok := d.(*ast.OperationDefinition)
		if !ok {
			continue
		}
		for _, vd := range op.VariableDefinitions {
			if vd == nil || vd.Variable == nil || vd.Variable.Name == nil {
				continue
			}
			t := vd.Type
			if nn, ok := t.(*ast.NonNull); ok && nn != nil {
				t = nn.Type
			}
			if n, ok := t.(*ast.Named); ok && n != nil && n.Name != nil && n.Name.Value == "Boolean" && len(names) < 3 {
				names = append(names, vd.Variable.Name.Value)
			}
		}
		break
	}
	return names
}

func classify(text, bad string) string { return "" }
func classifyZero(name string) string  { return "" }

func sigOf(bad string) string {
	f := strings.Fields(bad)
	if len(f) > 6 {
		f = f[:6]
	}
	return strings.Join(f, " ")
}

func replay(c *core.Ctx, p map[string]interface{}) (bool, string) {
	e, err := newEnv()
	if err != nil {
		return false, err.Error()
	}
	if z, ok := p["zero"].(string); ok {
		return false, "zero-parameter case " + z + ": re-run the check to reproduce"
	}
	text, _ := p["text"].(string)
	if bad, _ := e.judgeText(text); bad != "" {
		return false, fmt.Sprintf("%q: %s", text, bad)
	}
	return true, "every entry point returned a well-formed result"
}
