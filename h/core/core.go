// Package core is the glue between the worker binary and the individual checks.
package core

import (
	"encoding/json"
	"fmt"
	"os"
	"sort"
	"strings"
	"time"

	"verif/explore"
	"verif/report"
)

// KnownFinding is one entry of /verif/known_findings.json.
type KnownFinding struct {
	ID       string `json:"id"`
	Property string `json:"property"`
	Status   string `json:"status"` // "known" | "fixed"
	What     string `json:"what"`
	Witness  string `json:"witness"`
	Commit   string `json:"commit,omitempty"`
}

type Ctx struct {
	Property string
	Tier     string
	Shard    int
	NShards  int
	Seed     int64
	Deadline time.Time
	R        *report.Part
	Known    map[string]KnownFinding
	Args     map[string]string
}

func (c *Ctx) Quick() bool { return c.Tier != "thorough" }

// Pick returns q for the quick tier and t for the thorough tier.
func (c *Ctx) Pick(q, t int) int {
	if c.Quick() {
		return q
	}
	return t
}

// Explorer returns an explorer wired to this worker's shard and deadline.
func (c *Ctx) Explorer(maxDev int) *explore.Explorer {
	e := &explore.Explorer{MaxDev: maxDev, Shard: c.Shard, NShards: c.NShards, ShardLevel: 1, Deadline: c.Deadline}
	if ch := Registry[c.Property]; ch != nil && !ch.Race {
		// sequential checks build every execution from fresh objects and own every choice:
		// the same choices giving other observations means library state leaked across
		// executions (a request's outcome depends on earlier requests in the process)
		e.OnDiverge = func(trace []int, what string) {
			c.Mismatch("", "same case, other observations", fmt.Sprintf("the same case executed twice in this process is observed differently (state of the library outlives a request): %s", what),
				map[string]interface{}{"choices": trace, "divergence": true})
		}
	}
	return e
}

// Absorb adds an explorer's statistics to the report.
func (c *Ctx) Absorb(e *explore.Explorer) {
	c.R.Transitions += e.Points
	c.R.Replicated += e.Replicated
	c.R.Rechecks += e.Rechecks
	if e.MaxDepth > c.R.MaxDepth {
		c.R.MaxDepth = e.MaxDepth
	}
	if e.DeadlineHit {
		c.R.DeadlineHit = true
		c.R.Exhaustive = false
	}
}

// Mine reports whether index i of a flat enumeration belongs to this shard.
func (c *Ctx) Mine(i int) bool { return i%c.NShards == c.Shard }

// Expired reports whether the worker's internal deadline has passed.
func (c *Ctx) Expired() bool {
	if c.Deadline.IsZero() {
		return false
	}
	if time.Now().After(c.Deadline) {
		c.R.DeadlineHit = true
		c.R.Exhaustive = false
		return true
	}
	return false
}

// Mismatch files an oracle mismatch. If findingID names an entry of the known-findings
// file with status "known" (and belonging to this property), it is counted as a known
// finding; otherwise it is a violation.
func (c *Ctx) Mismatch(findingID, sig, what string, replay map[string]interface{}) {
	if findingID != "" {
		// several ids (comma separated) = the observation is the joint effect of several
		// listed defects; every one of them must be listed as known
		ids := strings.Split(findingID, ",")
		all := true
		for _, id := range ids {
			if k, ok := c.Known[id]; !(ok && k.Status == "known" && strings.Contains(","+k.Property+",", ","+c.Property+",")) {
				all = false
			}
		}
		if all {
			for _, id := range ids {
				c.R.Finding(id, what)
			}
			return
		}
	}
	if replay == nil {
		replay = map[string]interface{}{}
	}
	replay["check"] = c.Property
	replay["what"] = what
	if findingID != "" {
		replay["resembles"] = findingID
		sig = findingID + "|" + sig
	}
	c.R.Violate(sig, what, replay)
}

type Check struct {
	Run    func(c *Ctx)
	Replay func(c *Ctx, payload map[string]interface{}) (ok bool, detail string)
	Race   bool // needs the scheduler build (-race)
}

var Registry = map[string]*Check{}

func Register(id string, ch *Check) { Registry[id] = ch }

func LoadKnown(path string) (map[string]KnownFinding, error) {
	out := map[string]KnownFinding{}
	b, err := os.ReadFile(path)
	if err != nil {
		if os.IsNotExist(err) {
			return out, nil
		}
		return nil, err
	}
	var doc struct {
		Findings []KnownFinding `json:"findings"`
	}
	if err := json.Unmarshal(b, &doc); err != nil {
		return nil, err
	}
	for _, f := range doc.Findings {
		out[f.ID] = f
	}
	return out, nil
}

func IDs() []string {
	var ids []string
	for k := range Registry {
		ids = append(ids, k)
	}
	sort.Strings(ids)
	return ids
}

func J(v interface{}) string {
	b, err := json.Marshal(v)
	if err != nil {
		return fmt.Sprintf("%#v", v)
	}
	return string(b)
}
