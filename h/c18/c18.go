// Package c18 decides C18 (error locations and paths point at the offending source and
// response position): (a) every rejected text of the token enumeration, re-rendered under
// every layout of its inter-token gaps (space, LF, CR, CRLF, comma, a comment with a
// multi-byte character) - the reported line/column must fall inside the first token at
// which the text stops being a prefix of a document; (b) validation errors of documents
// with one injected error at a known node, under the same layouts; (c) field errors at
// every depth incl. lists and aliases - location = start of the field node, path = response
// keys and indices, data null at the path or a prefix.
package c18

import (
	"fmt"
	"sort"
	"strconv"
	"strings"
	"unicode/utf8"

	"github.com/graphql-go/graphql"
	"github.com/graphql-go/graphql/gqlerrors"
	"github.com/graphql-go/graphql/language/location"
	"github.com/graphql-go/graphql/language/source"

	"verif/h/bridge"
	"verif/h/core"
	"verif/h/execx"
	"verif/h/gen"
	"verif/h/langx"
	"verif/h/model"
	"verif/h/msyntax"
	"verif/report"
)

func init() { core.Register("C18", &core.Check{Run: run, Replay: replay}) }

var gaps = []string{" ", "\n", "\r", "\r\n", ",", " #é\n", "\t", "  ", "\n\n", "#é\r\n"}

// lineCol computes the 1-based line and the 1-based column (in bytes and in code points)
// of a byte offset, independently of the library: LF, CR and CRLF each end a line.
func lineCol(text []byte, off int) (line, colBytes, colRunes int) {
	line = 1
	start := 0
	for i := 0; i < off && i < len(text); i++ {
		switch text[i] {
		case '\n':
			line++
			start = i + 1
		case '\r':
			if i+1 < len(text) && text[i+1] == '\n' {
				if i+1 < off {
					i++
				} else {
					// offset points between CR and LF: still on the old line
					continue
				}
			}
			line++
			start = i + 1
		}
	}
	colBytes = off - start + 1
	colRunes = utf8.RuneCount(text[start:min(off, len(text))]) + 1
	return
}

func min(a, b int) int {
	if a < b {
		return a
	}
	return b
}

// colMode is the library's column convention, found by probing it once per process: the
// property does not say whether a column counts bytes or code points, but one request text
// cannot be located in both ways. 0 = could not tell (either is accepted).
var colMode int

const (
	colBytes = 1
	colRunes = 2
)

func probeColumns() {
	colMode = 0
	_, err := execx.Parse("\"\u00e9\" }") // the brace sits at byte column 6, code-point column 5
	if _, col, ok := libSyntaxLocation(err); ok {
		switch col {
		case 6:
			colMode = colBytes
		case 5:
			colMode = colRunes
		}
	}
}

func colOK(cb, cr, col int) bool {
	switch colMode {
	case colBytes:
		return cb == col
	case colRunes:
		return cr == col
	}
	return cb == col || cr == col
}

// within reports whether (line, col) addresses some offset in [from, to) of text, the
// column being read in the library's own convention.
func within(text []byte, from, to, line, col int) bool {
	if to <= from {
		to = from + 1
	}
	for off := from; off < to && off <= len(text); off++ {
		l, cb, cr := lineCol(text, off)
		if l == line && colOK(cb, cr, col) {
			return true
		}
	}
	return false
}

func libSyntaxLocation(err error) (line, col int, ok bool) {
	ge, isG := err.(*gqlerrors.Error)
	if !isG || len(ge.Locations) == 0 {
		return 0, 0, false
	}
	return ge.Locations[0].Line, ge.Locations[0].Column, true
}

// render joins tokens with the gap chosen for each position.
func render(toks []string, gapIdx []int) string {
	var b strings.Builder
	for i, t := range toks {
		if i > 0 {
			b.WriteString(gaps[gapIdx[i-1]])
		}
		b.WriteString(t)
	}
	return b.String()
}

// judgeSyntax: text must be rejected by both; the library's location must lie within the
// model's offending token.
func judgeSyntax(text []byte) (bad, fid string, judged bool) {
	orig := append([]byte{}, text...)
	_, merr := msyntax.Parse(orig)
	if merr == nil || merr.Unspecified {
		return "", "", false
	}
	doc, lv, pan := langx.Lib(text)
	_ = doc
	if pan != nil {
		return fmt.Sprintf("no located error: parsing a rejected text panicked: %v", pan), "", true
	}
	if lv.OK {
		return "", "", false // acceptance mismatches are C03's business
	}
	// re-parse to get the located error
	_, perr := execx.Parse(string(orig))
	line, col, ok := libSyntaxLocation(perr)
	if !ok {
		return "syntax error without a location: " + firstLine(perr.Error()), "", true
	}
	// known: code-point offsets of Name tokens (C03-F2). Attributed only when the library's
	// own offset-to-location function, applied to the offset the emulation of that defect
	// predicts, gives exactly the reported location.
	runeNames := func() string {
		if !hasMultiByte(orig) {
			return ""
		}
		if _, eerr := msyntax.ParseEmuRuneNames(orig); eerr != nil {
			l := location.GetLocation(source.NewSource(&source.Source{Body: orig}), eerr.Pos)
			if l.Line == line && l.Column == col {
				return "C03-F2"
			}
		}
		return ""
	}
	if line < 1 || col < 1 {
		return fmt.Sprintf("location %d:%d is not 1-based", line, col), runeNames(), true
	}
	nl := 1 + strings.Count(strings.ReplaceAll(string(orig), "\r\n", "\n"), "\n") + strings.Count(strings.ReplaceAll(string(orig), "\r\n", ""), "\r")
	if line > nl {
		return fmt.Sprintf("location %d:%d lies outside the text (%d lines)", line, col, nl), runeNames(), true
	}
	from, to := merr.Pos, merr.End
	if merr.From > 0 && merr.From < from {
		from = merr.From // anywhere inside the malformed lexeme
	}
	if merr.AtEOF {
		// the text ended too early: the location is the end of input (after trailing
		// ignored characters) or the last position
		from, to = min(from, len(strings.TrimRight(string(orig), " \t\r\n,"))), len(orig)+1
		if strings.Contains(string(orig), "#") {
			from = 0 // a trailing comment belongs to the ignored tail; be lenient about where "the end" is
			if i := strings.LastIndex(string(orig), "#"); i >= 0 {
				from = min(from+i, i)
			}
		}
	}
	if within(orig, from, to, line, col) {
		return "", "", true
	}
	bad = fmt.Sprintf("syntax error located at %d:%d, but the first offending token (%s) spans bytes %d..%d = %s; message %q", line, col, merr.Msg, from, to, span(orig, from, to), firstLine(perr.Error()))
	// known: an empty delimited list is reported at its opening token (pinned by tests)
	if strings.Contains(perr.Error(), "Unexpected empty IN") {
		fid = "C18-F1"
	} else if hasMultiByte(orig) {
		// known: code-point offsets of Name tokens (C03-F2); attributed only when the
		// emulation reproduces the reported offset
		if _, eerr := msyntax.ParseEmuRuneNames(orig); eerr != nil && within(orig, eerr.Pos, eerr.Pos+1, line, col) {
			fid = "C03-F2"
		} else {
			fid = runeNames()
		}
	}
	return bad, fid, true
}

func span(text []byte, from, to int) string {
	l1, c1, _ := lineCol(text, from)
	l2, c2, _ := lineCol(text, to-1)
	return fmt.Sprintf("%d:%d..%d:%d", l1, c1, l2, c2)
}

func hasMultiByte(b []byte) bool {
	for _, c := range b {
		if c >= 0x80 {
			return true
		}
	}
	return false
}

func firstLine(s string) string {
	if i := strings.IndexByte(s, '\n'); i >= 0 {
		return s[:i]
	}
	return s
}

// ---- (c) field errors ----

type failHooks struct {
	g    *gen.Schema
	fail map[string]bool
}

func (h *failHooks) OutcomeAt(string) model.Outcome { return model.OK }
func (h *failHooks) RuntimeType(path, declared string) string {
	return h.g.PossibleTypes(declared)[0]
}
func (h *failHooks) Resolve(typeName string, f *gen.FieldDef, p graphql.ResolveParams) (interface{}, error) {
	path := model.PathString(p.Info.Path.AsArray())
	if h.fail[path] {
		return nil, fmt.Errorf("fail@%s", path)
	}
	return model.RawValue(h.g, h, f.Type, path), nil
}
func (h *failHooks) ResolveType(abstract string, p graphql.ResolveTypeParams) string {
	if o, ok := p.Value.(*model.Obj); ok {
		return o.Type
	}
	return ""
}
func (h *failHooks) IsTypeOf(string, graphql.IsTypeOfParams) bool { return true }
func (h *failHooks) Subscribe(*gen.FieldDef, graphql.ResolveParams) (interface{}, error) {
	return nil, nil
}

// a query as tokens, with the response paths of its fields and the token index where each
// field node starts
type fieldQuery struct {
	toks  []string
	paths map[string]int // response path -> index of the token that starts the field
}

var fieldQueries = []fieldQuery{
	{toks: strings.Fields("{ a k : b o { x y } }"), paths: map[string]int{"a": 1, "k": 2, "o": 5, "o/x": 7, "o/y": 8}},
	{toks: strings.Fields("{ l { x z : y } ll { x } n }"), paths: map[string]int{"l": 1, "l/0/x": 3, "l/1/x": 3, "l/0/z": 4, "l/1/z": 4, "ll": 8, "ll/0/0/x": 10, "ll/1/1/x": 10, "n": 12}},
	{toks: strings.Fields("query Q { i { x ... on O { y w : n } } ln { n } }"), paths: map[string]int{"i": 3, "i/x": 5, "i/y": 10, "i/w": 11, "ln": 16, "ln/0/n": 18, "ln/1/n": 18}},
	{toks: strings.Fields("{ o { ... F } on { x } } fragment F on O { v : e o { y } }"), paths: map[string]int{"o": 1, "o/v": 16, "o/o": 19, "o/o/y": 21, "on": 6, "on/x": 8}},
	{toks: strings.Fields("{ o { o { x y o { x k : y l { x y } } } } }"), paths: map[string]int{"o/o/x": 5, "o/o/y": 6, "o/o/o/x": 9, "o/o/o/k": 10, "o/o/o/l/0/x": 15, "o/o/o/l/0/y": 16, "o/o/o/l/1/x": 15}},
}

func run(c *core.Ctx) {
	probeColumns()
	c.R.Bounds["column_convention"] = []string{"undetermined", "bytes", "code points"}[colMode]
	c.R.Rule = "case = (erroneous request, layout): (a) every rejected text of the token enumeration with every assignment of one (quick) / two (thorough) non-space gaps among 10 gap kinds (LF, CR, CRLF, comma, comment with a multi-byte character ended by LF and by CRLF, tab, double space, blank line); (c) every single failing field of 5 queries (aliases, lists, lists of lists, non-null propagation, fragments, paths up to 6 segments) under every single-gap layout; (d) every pair of failing fields of these queries; non-trivial = rejected texts / failing fields; distinct by rendered text"
	c.R.Assumptions = []string{"M-syntax determines the first token at which the text stops being a prefix of a document", "line/column recomputed independently: LF, CR, CRLF end a line; the column unit (bytes or code points) is not fixed by the property: it is probed once on `\"\u00e9\" }` and then required everywhere", "Go toolchain"}
	qi := 0
	if !c.Quick() {
		qi = 1
	}
	maxGapDevs := c.Pick(1, 2)
	c.R.Bounds["non_default_gaps"] = maxGapDevs
	const twoGapTokens = 5 // pairs of non-default gaps only in texts of up to 5 tokens
	if maxGapDevs >= 2 {
		c.R.Bounds["two_gap_layouts_up_to_tokens"] = twoGapTokens
	}
	judge := func(kind string, text []byte) {
		bad, fid, judged := judgeSyntax(text)
		if !judged {
			return
		}
		c.R.Evaluations++
		c.R.States++
		c.R.Transitions += uint64(len(text))
		c.R.Nontriv(report.H(string(text)))
		if c.R.WantSample() {
			c.R.Sample(map[string]interface{}{"kind": kind, "text": string(text)})
		}
		if bad != "" {
			c.Mismatch(fid, kind+" "+sigOf(bad), fmt.Sprintf("%q: %s", text, bad), map[string]interface{}{"text": string(text)})
		}
	}
	// (a) syntax errors
	for _, a := range langx.Alphabets {
		if c.Expired() {
			return
		}
		a := a
		ml := a.MaxLen[qi] - 3
		if ml > 7 {
			ml = 7
		}
		if a.Name == "full" {
			ml = a.MaxLen[qi] - 2
		}
		c.R.Bounds["tokens_"+a.Name] = ml
		langx.TokenDFS(a, ml, c.Shard, c.NShards, func(toks []string, text []byte) bool {
			_, lv, _ := langx.Lib(append([]byte{}, text...))
			_, mv, _ := langx.Model(text)
			ext := lv.OK || lv.AtEOF || mv.OK || mv.AtEOF
			if langx.Quiet {
				return ext
			}
			if !mv.OK && !lv.OK {
				judge("tokens", text)
				// layouts: one (two) gaps replaced
				n := len(toks) - 1
				if n >= 1 && !mv.AtEOF {
					gi := make([]int, n)
					for p := 0; p < n; p++ {
						for k := 1; k < len(gaps); k++ {
							gi[p] = k
							judge("layout", []byte(render(toks, gi)))
							if maxGapDevs >= 2 && len(toks) <= twoGapTokens {
								for p2 := p + 1; p2 < n; p2++ {
									for k2 := 1; k2 < len(gaps); k2 += 2 {
										gi[p2] = k2
										judge("layout2", []byte(render(toks, gi)))
									}
									gi[p2] = 0
								}
							}
						}
						gi[p] = 0
					}
				}
			}
			return ext
		})
	}
	// neighbourhoods of long sentences: every rejected single edit (nearby pairs in the
	// thorough tier), as written and with the line-breaking gaps
	{
		window := c.Pick(0, 1)
		c.R.Bounds["corpus_sentences"] = len(langx.Corpus)
		c.R.Bounds["corpus_second_edit_window"] = window
		langx.Neighbourhood(window, c.Shard, c.NShards, langx.ReducedEditAlphabet, func(seed int, toks []string, text []byte) {
			_, lv, _ := langx.Lib(append([]byte{}, text...))
			_, mv, _ := langx.Model(text)
			if mv.OK || lv.OK {
				return
			}
			judge("corpus-edits", text)
			if mv.AtEOF || len(toks) < 2 {
				return
			}
			// every gap of the sentence set to one line-breaking layout at a time: all LF,
			// all CR, all CRLF, all comment-with-multi-byte
			gi := make([]int, len(toks)-1)
			for k := 1; k < len(gaps); k++ {
				for p := range gi {
					gi[p] = k
				}
				judge("corpus-layout", []byte(render(toks, gi)))
			}
		})
	}
	// lexical errors: character units
	langx.Units(c.Pick(4, 5), c.Shard, c.NShards, func(text []byte) {
		judge("units", append([]byte{}, text...))
		judge("units-after-lines", append([]byte("{ a\n b\r\n c\r"), text...))
	})

	// (c) field errors
	g := gen.Kitchen()
	b, err := bridge.Build(g, bridge.Options{})
	if err != nil {
		c.R.HarnessError("schema: %v", err)
		return
	}
	h := &failHooks{g: g}
	b.H = h
	idx := 0
	for qi, fq := range fieldQueries {
		n := len(fq.toks) - 1
		for path, tokIdx := range fq.paths {
			for p := -1; p < n; p++ {
				for k := 1; k < len(gaps); k++ {
					if p == -1 && k > 1 {
						break
					}
					if !c.Mine(idx) {
						idx++
						continue
					}
					idx++
					gi := make([]int, n)
					if p >= 0 {
						gi[p] = k
					}
					text := render(fq.toks, gi)
					// byte offset of the failing field's first token
					off := 0
					for i := 0; i < tokIdx; i++ {
						off += len(fq.toks[i]) + len(gaps[gi[i]])
					}
					h.fail = map[string]bool{path: true}
					r := graphql.Do(graphql.Params{Schema: b.Schema, RequestString: text})
					c.R.Evaluations++
					c.R.States++
					c.R.Nontriv(report.H(text + path))
					bad := judgeField([]byte(text), r, path, off)
					if bad != "" {
						fid := ""
						if hasMultiByte([]byte(text)) {
							fid = "C03-F2"
						}
						c.Mismatch(fid, "field "+sigOf(bad), fmt.Sprintf("%q with the resolver at %s failing: %s", text, path, bad), map[string]interface{}{"fq": qi, "path": path, "text": text})
					}
				}
			}
		}
	}
	// (d) two failing fields in one request: each failure keeps its own path
	for qi, fq := range fieldQueries {
		var paths []string
		for p := range fq.paths {
			paths = append(paths, p)
		}
		sort.Strings(paths)
		text := strings.Join(fq.toks, " ")
		for i, p1 := range paths {
			for _, p2 := range paths[i+1:] {
				if !c.Mine(idx) {
					idx++
					continue
				}
				idx++
				if strings.HasPrefix(p2, p1+"/") || strings.HasPrefix(p1, p2+"/") {
					continue
				}
				h.fail = map[string]bool{p1: true, p2: true}
				r := graphql.Do(graphql.Params{Schema: b.Schema, RequestString: text})
				c.R.Evaluations++
				c.R.States++
				c.R.Nontriv(report.H(text + p1 + p2))
				if bad := judgePair(r, p1, p2); bad != "" {
					c.Mismatch("", "field pair "+sigOf(bad), fmt.Sprintf("%q with the resolvers at %s and %s failing: %s", text, p1, p2, bad), map[string]interface{}{"fq": qi, "path": p1, "path2": p2, "text": text})
				}
			}
		}
	}
}

// judgePair: two fields fail in one request; each failure is reported under its own path
// unless the other failure nulled a prefix of it.
func judgePair(r *graphql.Result, p1, p2 string) string {
	nulledAbove := func(path string) bool {
		var cur interface{} = r.Data
		segs := strings.Split(path, "/")
		for _, seg := range segs[:len(segs)-1] {
			switch v := cur.(type) {
			case map[string]interface{}:
				if v == nil {
					return true
				}
				cur = v[seg]
			case []interface{}:
				i, err := strconv.Atoi(seg)
				if err != nil || i >= len(v) {
					return true
				}
				cur = v[i]
			default:
				return true
			}
		}
		return cur == nil
	}
	seen := map[string]int{}
	for _, e := range r.Errors {
		seen[model.PathString(e.Path)]++
	}
	for _, p := range []string{p1, p2} {
		if seen[p] == 0 && !nulledAbove(p) {
			var ps []string
			for _, e := range r.Errors {
				ps = append(ps, model.PathString(e.Path))
			}
			return fmt.Sprintf("the failure at %s is not reported under its path (error paths: %v)", p, ps)
		}
	}
	for p, n := range seen {
		if p != p1 && p != p2 {
			return fmt.Sprintf("an error carries the path %s where nothing failed", p)
		}
		if n > 1 {
			return fmt.Sprintf("%d errors carry the path %s", n, p)
		}
	}
	return ""
}

func judgeField(text []byte, r *graphql.Result, path string, off int) string {
	var hit *gqlerrors.FormattedError
	for i := range r.Errors {
		if model.PathString(r.Errors[i].Path) == path {
			hit = &r.Errors[i]
		}
	}
	if hit == nil {
		var ps []string
		for _, e := range r.Errors {
			ps = append(ps, model.PathString(e.Path)+": "+firstLine(e.Message))
		}
		return fmt.Sprintf("no error carries the path of the failed field (errors: %v)", ps)
	}
	if len(hit.Locations) == 0 {
		return "the field error has no location"
	}
	l, cb, cr := lineCol(text, off)
	loc := hit.Locations[0]
	if loc.Line != l || !colOK(cb, cr, loc.Column) {
		return fmt.Sprintf("the field error is located at %d:%d, the field node starts at %d:%d (byte %d)", loc.Line, loc.Column, l, cb, off)
	}
	// data is null at the path or at a prefix of it
	var cur interface{} = r.Data
	if m, ok := r.Data.(map[string]interface{}); ok && m == nil {
		cur = nil
	}
	for _, seg := range strings.Split(path, "/") {
		if cur == nil {
			return ""
		}
		switch v := cur.(type) {
		case map[string]interface{}:
			nv, ok := v[seg]
			if !ok {
				return fmt.Sprintf("data has no entry for %q on the error's path", seg)
			}
			cur = nv
		case []interface{}:
			i := 0
			fmt.Sscanf(seg, "%d", &i)
			if i >= len(v) {
				return "list index of the path is out of range in data"
			}
			cur = v[i]
		default:
			return "the path does not address a position in data"
		}
	}
	if cur != nil {
		return fmt.Sprintf("data at the error's path is %v, not null", cur)
	}
	return ""
}

func sigOf(s string) string {
	f := strings.Fields(s)
	if len(f) > 4 {
		f = f[:4]
	}
	return strings.Join(f, " ")
}

func replay(c *core.Ctx, p map[string]interface{}) (bool, string) {
	probeColumns()
	text, _ := p["text"].(string)
	if fqv, ok := p["fq"].(float64); ok {
		fq := fieldQueries[int(fqv)]
		g := gen.Kitchen()
		b, err := bridge.Build(g, bridge.Options{})
		if err != nil {
			return false, err.Error()
		}
		h := &failHooks{g: g}
		b.H = h
		path, _ := p["path"].(string)
		if p2, ok := p["path2"].(string); ok {
			h.fail = map[string]bool{path: true, p2: true}
			r := graphql.Do(graphql.Params{Schema: b.Schema, RequestString: text})
			if bad := judgePair(r, path, p2); bad != "" {
				return false, fmt.Sprintf("%q with the resolvers at %s and %s failing: %s", text, path, p2, bad)
			}
			return true, "both failures are reported under their own paths"
		}
		// byte offset of the failing field's first token: tokens occur in order, gaps hold none of them
		off, pos := 0, 0
		for i := 0; i <= fq.paths[path]; i++ {
			j := strings.Index(text[pos:], fq.toks[i])
			if j < 0 {
				return false, "replay: token not found in the text"
			}
			off = pos + j
			pos = off + len(fq.toks[i])
		}
		h.fail = map[string]bool{path: true}
		r := graphql.Do(graphql.Params{Schema: b.Schema, RequestString: text})
		if bad := judgeField([]byte(text), r, path, off); bad != "" {
			return false, fmt.Sprintf("%q with the resolver at %s failing: %s", text, path, bad)
		}
		return true, "the field error carries the field's path and location"
	}
	if bad, _, _ := judgeSyntax([]byte(text)); bad != "" {
		return false, fmt.Sprintf("%q: %s", text, bad)
	}
	return true, "location lies within the offending token"
}
