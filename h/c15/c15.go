// Package c15 decides C15 (subscription delivery and shutdown) by exploring the
// interleavings of producer, consumer, canceller, the library's forwarding goroutine and
// its per-event execution goroutines under the cooperative scheduler (race detector on).
package c15

import (
	"context"
	"encoding/json"
	"errors"
	"fmt"
	"strings"

	"github.com/graphql-go/graphql"
	"github.com/graphql-go/graphql/vsched"

	"verif/explore"
	"verif/h/c16"
	"verif/h/core"
	"verif/h/sx"
	"verif/report"
)

func init() { core.Register("C15", &core.Check{Run: run, Replay: replay, Race: true}) }

const (
	reqValid = iota
	reqSyntax
	reqInvalid
	reqSubErr
	reqSubNil
	reqSubValue // Subscribe returns a plain value instead of a channel
	nReq
)

var reqNames = []string{"valid", "syntax-error", "validation-error", "subscribe-error", "subscribe-nil", "subscribe-plain-value"}

const (
	consAll  = iota // reads until the channel is closed
	consOne         // reads one result, then stops
	consNone        // never reads
)

var consNames = []string{"reads-all", "reads-one-then-stops", "never-reads"}

type scenario struct {
	req    int
	events int  // events the producer sends
	bad    int  // index of an event whose payload makes the field fail (-1 none)
	nilAt  int  // 1 + index of an event whose payload is nil (0 none)
	closes bool // producer closes the source after the events
	cons   int
	cancel bool
	// vars: the subscription declares a variable of an enum type whose internal values are
	// not the value names; 1 = its default is used, 2 = a value is supplied
	vars int
	// spreads: the root field is reached only through a named fragment that is spread twice,
	// the first spread switched off by a directive
	spreads bool
}

func (s scenario) String() string {
	return fmt.Sprintf("request=%s events=%d failing_event=%d nil_event=%d producer_closes=%v consumer=%s cancel=%v enum_variable=%s root_through_repeated_spread=%v", reqNames[s.req], s.events, s.bad, s.nilAt-1, s.closes, consNames[s.cons], s.cancel, [...]string{"none", "defaulted", "supplied"}[s.vars], s.spreads)
}

type env struct {
	src      chan interface{}
	ctx      *sx.Ctx
	got      [8]string
	nGot     int
	closed   bool
	consDone bool
	pan      interface{}
}

//go:norace
func (e *env) record(s string) {
	if e.nGot < len(e.got) {
		e.got[e.nGot] = s
		e.nGot++
	}
}

func buildSchema(e *env, sc scenario) (graphql.Schema, error) {
	ev := graphql.NewObject(graphql.ObjectConfig{Name: "Ev", Fields: graphql.Fields{
		"v": &graphql.Field{Type: graphql.String},
	}})
	mode := graphql.NewEnum(graphql.EnumConfig{Name: "Mode", Values: graphql.EnumValueConfigMap{"HI": &graphql.EnumValueConfig{Value: 7}, "LO": &graphql.EnumValueConfig{Value: 3}}})
	sub := graphql.NewObject(graphql.ObjectConfig{Name: "Subscription", Fields: graphql.Fields{
		"ev": &graphql.Field{Type: ev, Args: graphql.FieldConfigArgument{"m": &graphql.ArgumentConfig{Type: mode}},
			Resolve: func(p graphql.ResolveParams) (interface{}, error) {
				m, _ := p.Source.(map[string]interface{})
				if mv, ok := p.Args["m"]; ok && len(m) > 0 && m["bad"] != true {
					// the coerced argument is part of the answer
					return map[string]interface{}{"v": fmt.Sprintf("%v/%v", m["v"], mv)}, nil
				}
				if len(m) == 0 {
					// a nil payload is an event like any other
					return map[string]interface{}{"v": "nil-event"}, nil
				}
				if m["bad"] == true {
					return nil, errors.New("bad event")
				}
				return m, nil
			},
			Subscribe: func(p graphql.ResolveParams) (interface{}, error) {
				switch sc.req {
				case reqSubErr:
					return nil, errors.New("cannot subscribe")
				case reqSubNil:
					return nil, nil
				case reqSubValue:
					return map[string]interface{}{"v": "single"}, nil
				}
				return e.src, nil
			}},
	}})
	q := graphql.NewObject(graphql.ObjectConfig{Name: "Query", Fields: graphql.Fields{"a": &graphql.Field{Type: graphql.String}}})
	return graphql.NewSchema(graphql.SchemaConfig{Query: q, Subscription: sub})
}

func requestText(sc scenario) string {
	switch sc.req {
	case reqSyntax:
		return "subscription { ev { v }"
	case reqInvalid:
		return "subscription { ev { nope } }"
	}
	if sc.vars > 0 {
		return "subscription($m: Mode = HI) { ev(m: $m) { v } }"
	}
	if sc.spreads {
		return "subscription { ...T @skip(if: true) ...T } fragment T on Subscription { ev { v } }"
	}
	return "subscription { ev { v } }"
}

func expectedEvent(i int, bad bool) string {
	if bad {
		return `{"data":{"ev":null},"errors":[{"message":"bad event","locations":[{"line":1,"column":16}],"path":["ev"]}]}`
	}
	return fmt.Sprintf(`{"data":{"ev":{"v":"e%d"}}}`, i)
}

const ctxErrResult = `{"data":null,"errors":[{"message":"context canceled","locations":[]}]}`

type outcome struct {
	bad    string
	fid    string
	dig    uint64
	steps  int
	got    []string
	parked []string
}

func execute(x *explore.X, sc scenario, horizon int) outcome {
	e := &env{ctx: sx.NewCtx(), src: make(chan interface{})}
	schema, err := buildSchema(e, sc)
	if err != nil {
		return outcome{bad: "HARNESS schema: " + err.Error()}
	}
	text := requestText(sc)
	vsched.Begin(sx.Chooser(x), horizon)
	consumer := vsched.Go("consumer", func() {
		defer func() {
			if r := recover(); r != nil {
				e.pan = r
			}
		}()
		var vars map[string]interface{}
		if sc.vars == 2 {
			vars = map[string]interface{}{"m": "LO"}
		}
		ch := graphql.Subscribe(graphql.Params{Schema: schema, RequestString: text, Context: e.ctx, VariableValues: vars})
		if sc.cons == consNone {
			e.consDone = true
			return
		}
		for {
			r, ok := vsched.Recv2("consumer", ch)
			if !ok {
				e.closed = true
				break
			}
			b, _ := json.Marshal(r)
			e.record(string(b))
			if sc.cons == consOne {
				break
			}
		}
		e.consDone = true
	})
	if sc.req == reqValid {
		vsched.Go("producer", func() {
			for i := 0; i < sc.events; i++ {
				if i == sc.nilAt-1 {
					vsched.Send("producer", e.src, interface{}(nil))
					continue
				}
				vsched.Send("producer", e.src, interface{}(map[string]interface{}{"v": fmt.Sprintf("e%d", i), "bad": i == sc.bad}))
			}
			if sc.closes {
				vsched.Close(e.src)
			}
		})
	}
	if sc.cancel {
		vsched.Go("canceller", func() { e.ctx.Cancel(context.Canceled) })
	}
	sum := vsched.End()

	var out outcome
	out.steps = sum.Steps
	out.got = append([]string{}, e.got[:e.nGot]...)
	consFinished := false
	for _, t := range sum.Threads {
		if t.ID == consumer {
			consFinished = t.Finished
		}
		if t.Panicked && out.bad == "" {
			out.bad = fmt.Sprintf("thread %d (%s) panicked: %v", t.ID, t.Site, t.PanicVal)
		}
		if !t.Finished {
			out.parked = append(out.parked, fmt.Sprintf("%s:%s@%s", t.Site, t.Parked, t.OpSite))
			if t.Lib && sc.cancel && out.bad == "" {
				out.bad = fmt.Sprintf("after cancellation a goroutine started for the subscription (%s) is blocked forever in %s at %s", t.Site, t.Parked, t.OpSite)
				if t.Parked == "send" && strings.HasPrefix(t.OpSite, "subscription.go") {
					out.fid = "C15-F1"
				}
			}
		}
	}
	set := func(s string) {
		if out.bad == "" {
			out.bad = s
		}
	}
	if sum.Livelock {
		set("scheduling horizon exceeded (livelock?)")
	}
	if e.pan != nil {
		set(fmt.Sprintf("panic escaped Subscribe: %v", e.pan))
	}
	// delivered results: an in-order prefix of the expected results
	switch sc.req {
	case reqValid:
		for i, g := range out.got {
			if i >= sc.events {
				set(fmt.Sprintf("result %d delivered but only %d events were produced: %s", i, sc.events, g))
				break
			}
			if sc.cancel && g == ctxErrResult {
				continue // executing an event under a cancelled context yields the context error (C16)
			}
			want := expectedEvent(i, i == sc.bad)
			if i == sc.nilAt-1 {
				want = `{"data":{"ev":{"v":"nil-event"}}}`
			}
			if sc.vars > 0 {
				want = fmt.Sprintf(`{"data":{"ev":{"v":"e%d/%d"}}}`, i, [...]int{0, 7, 3}[sc.vars])
			}
			if g != want {
				set(fmt.Sprintf("result %d is %s, expected %s", i, g, want))
				break
			}
		}
		if sc.cons == consAll {
			if !consFinished {
				if sc.cancel || sc.closes {
					set(fmt.Sprintf("the result channel was never closed although cancel=%v source_closed=%v (parked: %v)", sc.cancel, sc.closes, out.parked))
				}
			} else if !sc.cancel && len(out.got) != sc.events {
				set(fmt.Sprintf("channel closed after %d results, %d events were produced and nothing was cancelled", len(out.got), sc.events))
			}
		}
		if sc.cons == consOne && sc.events > 0 && !sc.cancel && consFinished && len(out.got) != 1 {
			set(fmt.Sprintf("consumer wanted one result and got %d", len(out.got)))
		}
	case reqSubValue:
		// a plain value is executed once as the only event, then the channel closes
		if sc.cons == consAll {
			if !consFinished {
				set("the result channel was never closed for a single-value subscription")
			} else if sc.cancel && (len(out.got) == 0 || (len(out.got) == 1 && out.got[0] == ctxErrResult)) {
				// cancelled before or while the single value was executed
			} else if len(out.got) != 1 || out.got[0] != `{"data":{"ev":{"v":"single"}}}` {
				set(fmt.Sprintf("single-value subscription delivered %v", out.got))
			}
		}
	default:
		// failing request: exactly one error result, then closed
		if sc.cons == consAll {
			if !consFinished {
				set("the result channel of a failing request was never closed")
			} else if sc.cancel && len(out.got) == 0 {
				// cancelled before the error result was taken: closed without a result
			} else if len(out.got) != 1 {
				set(fmt.Sprintf("failing request delivered %d results, expected exactly one error result: %v", len(out.got), out.got))
			} else if !strings.Contains(out.got[0], `"errors"`) || strings.Contains(out.got[0], `"data":{`) {
				set("failing request delivered a result that is not an error result: " + out.got[0])
			}
		}
	}
	out.dig = report.H(strings.Join(out.got, "|") + fmt.Sprint(out.parked, consFinished))
	return out
}

func scenarios(thorough bool) []scenario {
	var out []scenario
	maxEv := 2
	if thorough {
		maxEv = 3
	}
	for ev := 0; ev <= maxEv; ev++ {
		for _, closes := range []bool{true, false} {
			for cons := consAll; cons <= consNone; cons++ {
				for _, cancel := range []bool{false, true} {
					out = append(out, scenario{req: reqValid, events: ev, bad: -1, closes: closes, cons: cons, cancel: cancel})
				}
			}
		}
	}
	// a failing payload in the middle
	out = append(out, scenario{req: reqValid, events: 2, bad: 0, closes: true, cons: consAll, cancel: false})
	out = append(out, scenario{req: reqValid, events: 2, bad: 1, closes: true, cons: consAll, cancel: true})
	// a nil payload is not the end of the stream
	out = append(out, scenario{req: reqValid, events: 2, bad: -1, nilAt: 1, closes: true, cons: consAll, cancel: false})
	out = append(out, scenario{req: reqValid, events: 2, bad: -1, nilAt: 2, closes: false, cons: consAll, cancel: true})
	// a variable of an enum type whose internal values are not the names: defaulted, supplied
	out = append(out, scenario{req: reqValid, events: 1, bad: -1, closes: true, cons: consAll, cancel: false, vars: 1})
	out = append(out, scenario{req: reqValid, events: 2, bad: -1, closes: true, cons: consAll, cancel: false, vars: 2})
	out = append(out, scenario{req: reqValid, events: 1, bad: -1, closes: false, cons: consAll, cancel: true, vars: 2})
	out = append(out, scenario{req: reqValid, events: 1, bad: -1, closes: true, cons: consAll, cancel: false, spreads: true})
	out = append(out, scenario{req: reqValid, events: 2, bad: -1, closes: false, cons: consAll, cancel: true, spreads: true})
	for req := reqSyntax; req < nReq; req++ {
		for cons := consAll; cons <= consNone; cons += 2 {
			for _, cancel := range []bool{false, true} {
				out = append(out, scenario{req: req, bad: -1, cons: cons, cancel: cancel})
			}
		}
	}
	return out
}

func run(c *core.Ctx) {
	bound := c.Pick(2, 4)
	horizon := 600
	c.R.Rule = "case = (scenario: request kind, number of events, failing payload, producer closes or not, consumer behaviour, cancellation) x every schedule of consumer / producer / canceller / forwarder / per-event executors with <= bound preemptions; non-trivial = at least one event or a cancellation; distinct by hash of (scenario, schedule)"
	c.R.Assumptions = []string{"scheduling only at synchronisation operations is sound for data-race-free programs; races are reported by the detector in every explored schedule", "vsched models Go channel/select semantics", "Go race detector", "instrumenter rewrites preserve semantics"}
	c.R.Bounds["preemptions"] = bound
	c.R.Bounds["preemptions_for_scenarios_with_2_or_more_events"] = bound - 1
	c.R.Bounds["scheduling_point_horizon"] = horizon
	rl := sx.NewRaceLog()
	if rl.Enabled() {
		// race-detector pass: fewer schedules are needed (see cmd/verif: two passes)
		bound = c.Pick(1, 3)
		c.R.Bounds["race_pass_preemptions"] = bound
		delete(c.R.Bounds, "preemptions")
		delete(c.R.Bounds, "preemptions_for_scenarios_with_2_or_more_events")
	}
	scs := scenarios(!c.Quick())
	c.R.Bounds["scenarios"] = len(scs)
	for si, sc := range scs {
		b := bound
		if sc.events >= 2 {
			b = bound - 1 // five and more threads: one preemption less (reported in bounds)
		}
		e := c.Explorer(b)
		e.MaxPoints = 6000
		e.StatePruning = true
		e.Run(func(x *explore.X, owned bool) uint64 {
			out := execute(x, sc, horizon)
			raceText := rl.New()
			if !owned {
				return out.dig
			}
			c.R.Evaluations++
			c.R.States++
			c.R.Outcome(report.H(fmt.Sprint(si) + strings.Join(out.got, "|") + fmt.Sprint(out.parked)))
			if sc.events > 0 || sc.cancel {
				c.R.Nontriv(report.H(fmt.Sprint(si, x.Trace())))
			}
			if c.R.WantSample() {
				c.R.Sample(map[string]interface{}{"scenario": sc.String(), "schedule": x.Trace(), "delivered": out.got, "parked_at_end": out.parked, "scheduling_points": out.steps})
			}
			if strings.HasPrefix(out.bad, "HARNESS") {
				c.R.HarnessError("%s", out.bad)
			} else if out.bad != "" {
				c.Mismatch(out.fid, sigOf(out.bad), fmt.Sprintf("%s schedule %v: %s", sc, x.Trace(), out.bad), map[string]interface{}{"scenario": si, "choices": x.Trace(), "thorough": !c.Quick()})
			}
			for _, rep := range sx.Parse(raceText) {
				c.Mismatch(c16.RaceFinding(rep), "race "+strings.Join(rep.Funcs, " / "), fmt.Sprintf("%s schedule %v: data race between %v at %v", sc, x.Trace(), rep.Funcs, rep.Sites),
					map[string]interface{}{"scenario": si, "choices": x.Trace(), "race": rep.Text, "thorough": !c.Quick()})
			}
			return out.dig
		})
		c.Absorb(e)
		c.R.Count("executions_cut_short_by_state_pruning", e.Pruned)
		if c.Expired() {
			return
		}
	}
}

func sigOf(s string) string {
	f := strings.Fields(s)
	if len(f) > 7 {
		f = f[:7]
	}
	return strings.Join(f, " ")
}

func replay(c *core.Ctx, p map[string]interface{}) (bool, string) {
	si := int(p["scenario"].(float64))
	var choices []int
	for _, v := range p["choices"].([]interface{}) {
		choices = append(choices, int(v.(float64)))
	}
	th, _ := p["thorough"].(bool)
	scs := scenarios(th)
	if si >= len(scs) {
		return false, "unknown scenario"
	}
	rl := sx.NewRaceLog()
	var out outcome
	explore.Replay(choices, 0, func(x *explore.X, owned bool) uint64 {
		out = execute(x, scs[si], 600)
		return out.dig
	})
	if t := rl.New(); t != "" {
		return false, "data race reported:\n" + t
	}
	if out.bad != "" {
		return false, out.bad
	}
	return true, fmt.Sprintf("schedule satisfies the property: delivered %v", out.got)
}
