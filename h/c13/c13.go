// Package c13 decides C13 (top-level mutation fields execute serially in document order):
// every generated mutation document x resolver kinds (plain, error, thunk, thunks below
// thunks) x EVERY iteration order of the result maps the library walks while forcing
// deferred values (the map-iteration seam turns hash order into an enumerable choice).
package c13

import (
	"encoding/json"
	"fmt"
	"sort"
	"strings"

	"github.com/graphql-go/graphql/vseam"

	"verif/explore"
	"verif/h/bridge"
	"verif/h/core"
	"verif/h/execx"
	"verif/h/gen"
	"verif/h/model"
	"verif/report"
)

func init() { core.Register("C13", &core.Check{Run: run, Replay: replay}) }

var alphabet = []model.Outcome{model.OK, model.ThunkOK, model.Err, model.ThunkErr}

var curX *explore.X

func factorial(n int) int {
	f := 1
	for i := 2; i <= n; i++ {
		f *= i
	}
	return f
}

// nthPerm returns the k-th permutation of 0..n-1 in lexicographic order.
func nthPerm(n, k int) []int {
	elems := make([]int, n)
	for i := range elems {
		elems[i] = i
	}
	out := make([]int, 0, n)
	for i := n; i >= 1; i-- {
		f := factorial(i - 1)
		j := k / f
		k %= f
		out = append(out, elems[j])
		elems = append(elems[:j], elems[j+1:]...)
	}
	return out
}

var topKeys string

// order is the seam hook: every permutation of every walk over the top-level response map
// (recognised by its key set); nested maps are walked in sorted or reversed order.
func order(site string, keys []string) []int {
	n := len(keys)
	if curX == nil || !(strings.HasPrefix(site, "executor.go:") || strings.HasPrefix(site, "plan.go:")) {
		return nil
	}
	if strings.Join(keys, ",") == topKeys && n <= 4 {
		return nthPerm(n, curX.Choose(factorial(n), "top-level map order"))
	}
	if strings.HasPrefix(site, "executor.go:") && curX.Choose(2, "nested map order") == 1 {
		p := make([]int, n)
		for i := range p {
			p[i] = n - 1 - i
		}
		return p
	}
	return nil
}

type result struct {
	bad  string
	text string
	evs  []string
}

// fixedDocs: mutations whose shape is given, so that the whole deviation budget goes into
// resolver kinds (thunks returning objects whose fields are thunks again, lists of thunks,
// failing thunks next to later top-level fields).
var fixedDocs = []string{
	`mutation {m3 {x o {y}} m1}`,
	`mutation {m4 {x y} m3 {y} m2}`,
	`mutation {a: m3 {x} b: m3 {y} m5}`,
	`mutation A {m1 m3 {l {x}}} query B {b}`,
	`mutation {m3 {o {o {y}}} m1}`,
}

func one(x *explore.X, f *execx.Fixture, depth int) result { return oneDoc(x, f, depth, -1) }

func oneDoc(x *explore.X, f *execx.Fixture, depth int, fixed int) result {
	curX = x
	defer func() { curX = nil }()
	f.W.X = x
	f.W.ResetAll()
	var doc *gen.Doc
	if fixed >= 0 {
		d, err := execx.DocFromText(fixedDocs[fixed])
		if err != nil {
			return result{bad: "PARSE " + err.Error(), text: fixedDocs[fixed]}
		}
		doc = d
	} else {
		g := &gen.DocGen{S: f.G, X: x, MaxDepth: depth, MaxSibs: 4, RootType: f.G.Mutation, RootKind: "mutation"}
		doc = g.Query()
	}
	text := doc.Render()
	{
		// response keys of the top level, sorted: how the seam recognises the root map
		seen := map[string]bool{}
		var ks []string
		var walk func(ss []*gen.Sel)
		walk = func(ss []*gen.Sel) {
			for _, s := range ss {
				switch s.Kind {
				case gen.SField:
					if !seen[s.Key()] {
						seen[s.Key()] = true
						ks = append(ks, s.Key())
					}
				case gen.SInline:
					walk(s.Sel)
				case gen.SSpread:
					if fr := doc.Frag(s.Name); fr != nil {
						walk(fr.Sel)
					}
				}
			}
		}
		walk(doc.Ops[0].Sel)
		sort.Strings(ks)
		topKeys = strings.Join(ks, ",")
	}
	_, perr, val := f.Prepare(text)
	if perr != nil {
		return result{bad: "PARSE " + perr.Error(), text: text}
	}
	if !val.IsValid {
		return result{bad: "SKIP", text: text}
	}
	inputs := map[string]interface{}{}
	for _, vd := range doc.Ops[0].Vars {
		dom := gen.VarDomain[vd.Name]
		if v := dom[x.Choose(len(dom), "var")]; v != nil {
			inputs[vd.Name] = v
		}
	}
	vars, _ := model.CoerceVariables(f.G, doc.Ops[0].Vars, inputs)
	opName := ""
	if len(doc.Ops) > 1 {
		opName = "A"
	}
	entry := execx.EntryDo
	if x.Choose(2, "entry") == 1 {
		entry = execx.EntryPlan
	}
	f.W.NFrags = len(doc.Frags)
	f.W.OpName = execx.OpNameOf(doc, opName)
	obs := f.Run(entry, text, opName, inputs)
	res := result{text: text, evs: append([]string{}, f.W.Events...)}
	if obs.Panic != nil {
		res.bad = fmt.Sprintf("panic: %v", obs.Panic)
		return res
	}
	// everything deferred has been forced when the response is handed over
	if obs.Result != nil {
		if _, err := json.Marshal(obs.Result.Data); err != nil {
			res.bad = fmt.Sprintf("a deferred value was never forced: the response data is not serialisable (%v); events %v", err, res.evs)
			return res
		}
	}
	exp := model.Execute(f.G, doc, opName, vars, f.W)
	idx := map[string]int{}
	for i, k := range exp.TopOrder {
		idx[k] = i
	}
	last, lastKey := -1, ""
	for _, ev := range res.evs {
		sp := strings.IndexByte(ev, ' ')
		path := ev[sp+1:]
		top := path
		if i := strings.IndexByte(path, '/'); i >= 0 {
			top = path[:i]
		}
		i, ok := idx[top]
		if !ok {
			res.bad = fmt.Sprintf("event %q belongs to no selected top-level field", ev)
			return res
		}
		if i < last {
			res.bad = fmt.Sprintf("%q runs after work of the later top-level field %q had started (document order %v, events %v)", ev, lastKey, exp.TopOrder, res.evs)
			return res
		}
		if i > last {
			last, lastKey = i, top
		}
	}
	return res
}

func run(c *core.Ctx) {
	f, err := execx.NewFixture(gen.Kitchen(), bridge.Options{})
	if err != nil {
		c.R.HarnessError("fixture: %v", err)
		return
	}
	f.W.Alphabet = alphabet
	vseam.OrderKeys = order
	dev := c.Pick(4, 5)
	depth := 1
	c.R.Rule = "case = (generated mutation document with up to 4 top-level fields incl. aliases, duplicates merged by key, fragments, nested selections and lists; resolver kind per invocation among plain / error / thunk / failing thunk, also below thunks; every permutation of every response-map walk with <= 4 keys; entry Do or reused plan); non-trivial = at least two top-level fields and one thunk; distinct by choice trace"
	c.R.Assumptions = []string{"instrumenter's map-range seam (vseam) preserves semantics: any key order is a legal Go map iteration order", "event log = resolver and thunk invocations recorded by the world", "Go toolchain"}
	c.R.Bounds["deviations_document_plus_resolver_kinds"] = dev
	c.R.Bounds["map_orders"] = "all n! orders (n <= 4) of every walk over the top-level response map; sorted and reversed for nested maps"
	e := c.Explorer(dev)
	e.Run(func(x *explore.X, owned bool) uint64 {
		r := one(x, f, depth)
		dig := report.H(r.text + strings.Join(r.evs, ";") + r.bad)
		if r.bad == "SKIP" {
			x.StopExpanding()
			return dig
		}
		if !owned {
			return dig
		}
		c.R.Evaluations++
		c.R.States++
		c.R.Outcome(dig)
		nth := 0
		for _, ev := range r.evs {
			if strings.HasPrefix(ev, "thunk") {
				nth++
			}
		}
		if nth > 0 && strings.Count(r.text, " ") >= 2 {
			c.R.Nontriv(report.H(fmt.Sprint(x.Trace())))
		}
		if c.R.WantSample() {
			c.R.Sample(map[string]interface{}{"mutation": r.text, "events": r.evs, "choices": x.Trace()})
		}
		if r.bad != "" {
			c.Mismatch(classify(r), "order", fmt.Sprintf("mutation %q: %s", r.text, r.bad), map[string]interface{}{"choices": x.Trace(), "depth": depth})
		}
		return dig
	})
	c.Absorb(e)
	kdev := c.Pick(3, 4)
	c.R.Bounds["fixed_documents"] = len(fixedDocs)
	c.R.Bounds["fixed_documents_resolver_kind_deviations"] = kdev
	for di := range fixedDocs {
		di := di
		e := c.Explorer(kdev)
		e.Run(func(x *explore.X, owned bool) uint64 {
			r := oneDoc(x, f, depth, di)
			dig := report.H(r.text + strings.Join(r.evs, ";") + r.bad)
			if !owned {
				return dig
			}
			c.R.Evaluations++
			c.R.States++
			c.R.Outcome(dig)
			for _, ev := range r.evs {
				if strings.HasPrefix(ev, "thunk") {
					c.R.Nontriv(report.H(fmt.Sprint("fixed", di, x.Trace())))
					break
				}
			}
			if c.R.WantSample() {
				c.R.Sample(map[string]interface{}{"mutation": r.text, "events": r.evs, "choices": x.Trace()})
			}
			if r.bad != "" && r.bad != "SKIP" {
				c.Mismatch(classify(r), "order", fmt.Sprintf("mutation %q: %s", r.text, r.bad), map[string]interface{}{"choices": x.Trace(), "depth": depth, "fixed": di})
			}
			return dig
		})
		c.Absorb(e)
	}
}

func classify(r result) string { return "" }

func replay(c *core.Ctx, p map[string]interface{}) (bool, string) {
	var choices []int
	for _, v := range p["choices"].([]interface{}) {
		choices = append(choices, int(v.(float64)))
	}
	f, err := execx.NewFixture(gen.Kitchen(), bridge.Options{})
	if err != nil {
		return false, err.Error()
	}
	f.W.Alphabet = alphabet
	vseam.OrderKeys = order
	var r result
	explore.Replay(choices, 0, func(x *explore.X, owned bool) uint64 {
		fixed := -1
		if fx, ok := p["fixed"].(float64); ok {
			fixed = int(fx)
		}
		r = oneDoc(x, f, 1, fixed)
		return 0
	})
	if r.bad != "" && r.bad != "SKIP" {
		return false, fmt.Sprintf("mutation %q: %s", r.text, r.bad)
	}
	return true, fmt.Sprintf("mutation %q: events %v are serial in document order", r.text, r.evs)
}
