// Package c11 decides C11 (schema construction never yields an inconsistent type system):
// a valid base configuration plus every combination of a bounded number of configuration
// defects (and every order of appending types afterwards) is handed to NewSchema /
// AppendType; the call must not panic, and whenever it returns no error the resulting
// schema must satisfy M-schema, a consistency predicate evaluated through the public API.
package c11

import (
	"fmt"
	"regexp"
	"sort"
	"strings"

	"github.com/graphql-go/graphql"

	"verif/explore"
	"verif/h/core"
	"verif/report"
)

func init() { core.Register("C11", &core.Check{Run: run, Replay: replay}) }

type defect struct {
	name    string
	invalid bool // the configuration becomes invalid (construction must return an error or a consistent schema; invalid ones must never yield err == nil with an inconsistent schema)
}

var defects = []defect{
	{"duplicate type name across kinds (enum named O)", true},
	{"object named 1Bad", true},
	{"field named 2f", true},
	{"argument named 3a", true},
	{"enum value named 4v", true},
	{"input object named 1In", true},
	{"input field named 2b", true},
	{"interface named 5I", true},
	{"union named 6U", true},
	{"scalar named 7S", true},
	{"object without fields", true},
	{"enum without values", true},
	{"union without members", true},
	{"input object without fields", true},
	{"nil member in union", true},
	{"nil entry in SchemaConfig.Types", true},
	{"field with nil type", true},
	{"interface field missing on implementer P", true},
	{"implementer field of wrong type (Int for String)", true},
	{"implementer field of a subtype (O for I) - valid", false},
	{"implementer field of a supertype (I for O)", true},
	{"implementer field list where non-list is declared", true},
	{"implementer argument of another type", true},
	{"implementer argument of a subtype (Int! for Int)", true},
	{"implementer lacks an argument", true},
	{"implementer adds a required argument", true},
	{"implementer adds an optional argument - valid", false},
	{"mutation root has an illegally named field", true},
	{"union member has an illegally named field", true},
	{"NonNull of NonNull", true},
	{"object type as argument type", true},
	{"input object as field type", true},
	{"fields given as a thunk - valid", false},
	{"interfaces thunk returns an interface the object does not implement", true},
	{"self-referential object and input object - valid", false},
	{"no query root", true},
	{"object declares interface I twice - not judged", false},
	{"union lists O twice - not judged", false},
	{"subscription root has an illegally named field", true},
	{"interface without fields", true},
	{"implementer field non-null where nullable is declared - valid", false},
	{"implementer field nullable where non-null is declared", true},
	{"implementer field I! where O! is declared (supertype below non-null)", true},
	{"implementer field O! where I! is declared - valid", false},
	{"implementer field [String]! where [String!]! is declared", true},
	{"argument-less interface field: implementer adds a required argument", true},
	{"argument-less interface field: implementer adds an optional argument - valid", false},
	{"nil field configuration in an object", true},
	{"nil argument configuration on a field", true},
	{"nil input field configuration", true},
	{"nil enum value configuration", true},
	{"nil interface among an object's interfaces", true},
	{"typed nil object as a field type", true},
	{"typed nil interface below a list as a field type", true},
	{"typed nil enum as an argument type", true},
	{"typed nil scalar below non-null as an input field type", true},
	{"typed nil object as the mutation root", true},
	{"nil directive in SchemaConfig.Directives", true},
	{"custom directive with a nil argument configuration", true},
	{"custom directive argument of an output type", true},
	{"custom directive argument without a type", true},
	{"custom directive named 9d", true},
	{"custom directive - valid", false},
	{"a nil type is appended", true},
	{"a typed nil object is appended", true},
}

type built struct {
	cfg   graphql.SchemaConfig
	extra []graphql.Type // types to append afterwards (or to supply up front)
	// nilExtra: a nil is among the appended types (supplying it up front is rejected by
	// NewSchema, so the append-later = up-front comparison does not apply)
	nilExtra bool
	// invalidExtra: the appended types are themselves inconsistent (an error is a right answer)
	invalidExtra bool
}

// build makes a fresh configuration with the given defects switched on.
func build(d map[int]bool, appendOrder int) built {
	on := func(name string) bool {
		for i, df := range defects {
			if d[i] && strings.HasPrefix(df.name, name) {
				return true
			}
		}
		return false
	}
	nm := func(def, bad string, cond bool) string {
		if cond {
			return bad
		}
		return def
	}
	enumVals := graphql.EnumValueConfigMap{"A": &graphql.EnumValueConfig{Value: 1}, "B": &graphql.EnumValueConfig{Value: 2}}
	if on("enum value named") {
		enumVals["4v"] = &graphql.EnumValueConfig{Value: 3}
	}
	if on("nil enum value configuration") {
		enumVals["N"] = nil
	}
	if on("enum without values") {
		enumVals = graphql.EnumValueConfigMap{}
	}
	E := graphql.NewEnum(graphql.EnumConfig{Name: "E", Values: enumVals})
	S := graphql.NewScalar(graphql.ScalarConfig{Name: nm("S", "7S", on("scalar named")), Serialize: func(v interface{}) interface{} { return v }})
	inFields := graphql.InputObjectConfigFieldMap{"a": &graphql.InputObjectFieldConfig{Type: graphql.Int}}
	if on("input field named") {
		inFields["2b"] = &graphql.InputObjectFieldConfig{Type: graphql.Int}
	}
	if on("nil input field configuration") {
		inFields["nf"] = nil
	}
	if on("typed nil scalar below non-null as an input field type") {
		var ns *graphql.Scalar
		inFields["ns"] = &graphql.InputObjectFieldConfig{Type: graphql.NewNonNull(ns)}
	}
	if on("input object without fields") {
		inFields = graphql.InputObjectConfigFieldMap{}
	}
	var In *graphql.InputObject
	In = graphql.NewInputObject(graphql.InputObjectConfig{Name: nm("In", "1In", on("input object named")), Fields: graphql.InputObjectConfigFieldMapThunk(func() graphql.InputObjectConfigFieldMap {
		if on("self-referential") {
			inFields["self"] = &graphql.InputObjectFieldConfig{Type: In}
		}
		return inFields
	})})

	ifields := graphql.Fields{
		"x": &graphql.Field{Type: graphql.String, Args: graphql.FieldConfigArgument{"p": &graphql.ArgumentConfig{Type: graphql.Int}}},
		"s": &graphql.Field{Type: graphql.String},
	}
	if on("interface without fields") {
		ifields = graphql.Fields{}
	}
	var O, P *graphql.Object
	I := graphql.NewInterface(graphql.InterfaceConfig{Name: nm("I", "5I", on("interface named")), Fields: graphql.FieldsThunk(func() graphql.Fields {
		return ifields
	}), ResolveType: func(p graphql.ResolveTypeParams) *graphql.Object { return O }})
	// a second interface with object-typed fields for covariance defects
	K := graphql.NewInterface(graphql.InterfaceConfig{Name: "K", Fields: graphql.FieldsThunk(func() graphql.Fields {
		return graphql.Fields{"ki": &graphql.Field{Type: I}, "ko": &graphql.Field{Type: O}, "kn": &graphql.Field{Type: graphql.NewNonNull(graphql.String)}, "kq": &graphql.Field{Type: graphql.String},
			"kx": &graphql.Field{Type: graphql.NewNonNull(O)}, "ky": &graphql.Field{Type: graphql.NewNonNull(I)}, "kl": &graphql.Field{Type: graphql.NewNonNull(graphql.NewList(graphql.NewNonNull(graphql.String)))}}
	}), ResolveType: func(p graphql.ResolveTypeParams) *graphql.Object { return O }})

	oArgs := graphql.FieldConfigArgument{"p": &graphql.ArgumentConfig{Type: graphql.Int}}
	switch {
	case on("implementer argument of another type"):
		oArgs = graphql.FieldConfigArgument{"p": &graphql.ArgumentConfig{Type: graphql.String}}
	case on("implementer argument of a subtype"):
		oArgs = graphql.FieldConfigArgument{"p": &graphql.ArgumentConfig{Type: graphql.NewNonNull(graphql.Int)}}
	case on("implementer lacks an argument"):
		oArgs = graphql.FieldConfigArgument{}
	case on("implementer adds a required argument"):
		oArgs["q"] = &graphql.ArgumentConfig{Type: graphql.NewNonNull(graphql.Int)}
	case on("implementer adds an optional argument"):
		oArgs["q"] = &graphql.ArgumentConfig{Type: graphql.Int}
	}
	var sType graphql.Output = graphql.String
	switch {
	case on("implementer field of wrong type"):
		sType = graphql.Int
	case on("implementer field list where"):
		sType = graphql.NewList(graphql.String)
	}
	var sArgs graphql.FieldConfigArgument
	switch {
	case on("argument-less interface field: implementer adds a required"):
		sArgs = graphql.FieldConfigArgument{"r": &graphql.ArgumentConfig{Type: graphql.NewNonNull(graphql.Int)}}
	case on("argument-less interface field: implementer adds an optional"):
		sArgs = graphql.FieldConfigArgument{"r": &graphql.ArgumentConfig{Type: graphql.Int}}
	}
	oFieldsFn := func() graphql.Fields {
		fs := graphql.Fields{
			"x":  &graphql.Field{Type: graphql.String, Args: oArgs},
			"s":  &graphql.Field{Type: sType, Args: sArgs},
			"y":  &graphql.Field{Type: graphql.Int},
			"e":  &graphql.Field{Type: E},
			"ki": &graphql.Field{Type: I},
			"ko": &graphql.Field{Type: O},
			"kn": &graphql.Field{Type: graphql.NewNonNull(graphql.String)},
			"kq": &graphql.Field{Type: graphql.String},
			"kx": &graphql.Field{Type: graphql.NewNonNull(O)},
			"ky": &graphql.Field{Type: graphql.NewNonNull(I)},
			"kl": &graphql.Field{Type: graphql.NewNonNull(graphql.NewList(graphql.NewNonNull(graphql.String)))},
		}
		if on("implementer field I! where O!") {
			fs["kx"] = &graphql.Field{Type: graphql.NewNonNull(I)}
		}
		if on("implementer field O! where I!") {
			fs["ky"] = &graphql.Field{Type: graphql.NewNonNull(O)}
		}
		if on("implementer field [String]! where") {
			fs["kl"] = &graphql.Field{Type: graphql.NewNonNull(graphql.NewList(graphql.String))}
		}
		if on("implementer field of a subtype") {
			fs["ki"] = &graphql.Field{Type: O}
		}
		if on("implementer field of a supertype") {
			fs["ko"] = &graphql.Field{Type: I}
		}
		if on("implementer field non-null where nullable") {
			fs["kq"] = &graphql.Field{Type: graphql.NewNonNull(graphql.String)}
		}
		if on("implementer field nullable where non-null") {
			fs["kn"] = &graphql.Field{Type: graphql.String}
		}
		if on("field named") {
			fs["2f"] = &graphql.Field{Type: graphql.String}
		}
		if on("argument named") {
			fs["y"] = &graphql.Field{Type: graphql.Int, Args: graphql.FieldConfigArgument{"3a": &graphql.ArgumentConfig{Type: graphql.Int}}}
		}
		if on("field with nil type") {
			fs["nilt"] = &graphql.Field{Type: nil}
		}
		if on("nil field configuration in an object") {
			fs["nilf"] = nil
		}
		if on("nil argument configuration on a field") {
			fs["nila"] = &graphql.Field{Type: graphql.String, Args: graphql.FieldConfigArgument{"na": nil}}
		}
		if on("typed nil object as a field type") {
			var no *graphql.Object
			fs["tno"] = &graphql.Field{Type: no}
		}
		if on("typed nil interface below a list as a field type") {
			var ni *graphql.Interface
			fs["tni"] = &graphql.Field{Type: graphql.NewList(ni)}
		}
		if on("typed nil enum as an argument type") {
			var ne *graphql.Enum
			fs["tne"] = &graphql.Field{Type: graphql.String, Args: graphql.FieldConfigArgument{"e": &graphql.ArgumentConfig{Type: ne}}}
		}
		if on("NonNull of NonNull") {
			fs["nn"] = &graphql.Field{Type: graphql.NewNonNull(graphql.NewNonNull(graphql.String))}
		}
		if on("object type as argument type") {
			fs["oa"] = &graphql.Field{Type: graphql.String, Args: graphql.FieldConfigArgument{"o": &graphql.ArgumentConfig{Type: P}}}
		}
		if on("input object as field type") {
			fs["inf"] = &graphql.Field{Type: In}
		}
		if on("self-referential") {
			fs["self"] = &graphql.Field{Type: graphql.NewList(graphql.NewNonNull(O))}
		}
		if on("union member has an illegally") {
			fs["9z"] = &graphql.Field{Type: graphql.String}
		}
		if on("object without fields") {
			return graphql.Fields{}
		}
		return fs
	}
	var oFields interface{} = graphql.FieldsThunk(oFieldsFn)
	if !on("fields given as a thunk") {
		// evaluated after P exists (see below)
		oFields = nil
	}
	oIfaces := func() []*graphql.Interface {
		out := []*graphql.Interface{I, K}
		if on("object declares interface I twice") {
			out = append(out, I)
		}
		if on("nil interface among an object's interfaces") {
			out = append(out, nil)
		}
		return out
	}
	pIfaces := graphql.InterfacesThunk(func() []*graphql.Interface {
		if on("interfaces thunk returns") {
			return []*graphql.Interface{I, K}
		}
		return []*graphql.Interface{I}
	})
	pFields := graphql.Fields{"x": &graphql.Field{Type: graphql.String, Args: graphql.FieldConfigArgument{"p": &graphql.ArgumentConfig{Type: graphql.Int}}}, "s": &graphql.Field{Type: graphql.String}}
	if on("interface field missing") {
		delete(pFields, "s")
	}
	P = graphql.NewObject(graphql.ObjectConfig{Name: "P", Fields: pFields, Interfaces: pIfaces})
	oCfg := graphql.ObjectConfig{Name: nm("O", "1Bad", on("object named")), Interfaces: graphql.InterfacesThunk(oIfaces)}
	if oFields != nil {
		oCfg.Fields = oFields
	} else {
		oCfg.Fields = graphql.FieldsThunk(oFieldsFn) // NewObject evaluates thunks lazily anyway; keep one path
	}
	O = graphql.NewObject(oCfg)

	members := []*graphql.Object{O, P}
	switch {
	case on("union without members"):
		members = []*graphql.Object{}
	case on("nil member in union"):
		members = []*graphql.Object{O, nil}
	case on("union lists O twice"):
		members = []*graphql.Object{O, P, O}
	}
	U := graphql.NewUnion(graphql.UnionConfig{Name: nm("U", "6U", on("union named")), Types: members, ResolveType: func(p graphql.ResolveTypeParams) *graphql.Object { return O }})

	// an interface nobody implements, whose field arguments use types found nowhere else
	LE := graphql.NewEnum(graphql.EnumConfig{Name: "LE", Values: graphql.EnumValueConfigMap{"L1": &graphql.EnumValueConfig{Value: 1}}})
	LIn2 := graphql.NewInputObject(graphql.InputObjectConfig{Name: "LIn2", Fields: graphql.InputObjectConfigFieldMap{"e": &graphql.InputObjectFieldConfig{Type: LE}}})
	LIn := graphql.NewInputObject(graphql.InputObjectConfig{Name: "LIn", Fields: graphql.InputObjectConfigFieldMap{"n": &graphql.InputObjectFieldConfig{Type: LIn2}}})
	L := graphql.NewInterface(graphql.InterfaceConfig{Name: "L", Fields: graphql.Fields{
		"lf": &graphql.Field{Type: graphql.String, Args: graphql.FieldConfigArgument{"a": &graphql.ArgumentConfig{Type: graphql.NewList(LIn)}}}},
		ResolveType: func(p graphql.ResolveTypeParams) *graphql.Object { return nil }})
	qFields := graphql.Fields{
		"l":  &graphql.Field{Type: L},
		"a":  &graphql.Field{Type: graphql.String},
		"o":  &graphql.Field{Type: O},
		"i":  &graphql.Field{Type: I},
		"k":  &graphql.Field{Type: K},
		"u":  &graphql.Field{Type: U},
		"sc": &graphql.Field{Type: S},
		"f":  &graphql.Field{Type: graphql.String, Args: graphql.FieldConfigArgument{"in": &graphql.ArgumentConfig{Type: In}, "e": &graphql.ArgumentConfig{Type: E}}},
	}
	if on("duplicate type name") {
		dup := graphql.NewEnum(graphql.EnumConfig{Name: "O", Values: graphql.EnumValueConfigMap{"Z": &graphql.EnumValueConfig{Value: 1}}})
		qFields["dup"] = &graphql.Field{Type: dup}
	}
	Q := graphql.NewObject(graphql.ObjectConfig{Name: "Query", Fields: qFields})
	mFields := graphql.Fields{"m": &graphql.Field{Type: graphql.Int}}
	if on("mutation root has") {
		mFields["8m"] = &graphql.Field{Type: graphql.Int}
	}
	M := graphql.NewObject(graphql.ObjectConfig{Name: "Mutation", Fields: mFields})
	sFields := graphql.Fields{"s": &graphql.Field{Type: graphql.Int}}
	if on("subscription root has") {
		sFields["8s"] = &graphql.Field{Type: graphql.Int}
	}
	Sub := graphql.NewObject(graphql.ObjectConfig{Name: "Subscription", Fields: sFields})

	// late types: X implements I, Y implements I & K
	X := graphql.NewObject(graphql.ObjectConfig{Name: "X", Interfaces: []*graphql.Interface{I}, Fields: graphql.Fields{
		"x": &graphql.Field{Type: graphql.String, Args: graphql.FieldConfigArgument{"p": &graphql.ArgumentConfig{Type: graphql.Int}}}, "s": &graphql.Field{Type: graphql.String}, "xy": &graphql.Field{Type: graphql.NewList(P)}}})
	b := built{}
	b.cfg = graphql.SchemaConfig{Query: Q, Mutation: M, Subscription: Sub, Types: []graphql.Type{P}}
	if on("no query root") {
		b.cfg.Query = nil
	}
	if on("nil entry in SchemaConfig.Types") {
		b.cfg.Types = append(b.cfg.Types, nil)
	}
	if on("typed nil object as the mutation root") {
		var nm *graphql.Object
		b.cfg.Mutation = nm
	}
	// directives: the specified ones plus at most one custom directive
	dirCfg := graphql.DirectiveConfig{Name: "cd", Locations: []string{graphql.DirectiveLocationField}, Args: graphql.FieldConfigArgument{"a": &graphql.ArgumentConfig{Type: E}, "b": &graphql.ArgumentConfig{Type: graphql.NewList(In)}}}
	custom := false
	if on("custom directive - valid") {
		custom = true
	}
	if on("custom directive with a nil argument configuration") {
		custom = true
		dirCfg.Args["n"] = nil
	}
	if on("custom directive argument of an output type") {
		custom = true
		dirCfg.Args["o"] = &graphql.ArgumentConfig{Type: P}
	}
	if on("custom directive argument without a type") {
		custom = true
		dirCfg.Args["t"] = &graphql.ArgumentConfig{}
	}
	if on("custom directive named 9d") {
		custom = true
		dirCfg.Name = "9d"
	}
	if custom {
		b.cfg.Directives = append(append([]*graphql.Directive{}, graphql.SpecifiedDirectives...), graphql.NewDirective(dirCfg))
	}
	if on("nil directive in SchemaConfig.Directives") {
		if b.cfg.Directives == nil {
			b.cfg.Directives = append([]*graphql.Directive{}, graphql.SpecifiedDirectives...)
		}
		b.cfg.Directives = append(b.cfg.Directives, nil)
	}
	switch appendOrder {
	case 1:
		b.extra = []graphql.Type{X}
	case 2:
		b.extra = []graphql.Type{X, E} // E is already known: appending it again must be harmless
	case 3:
		// a union (not an object) through which a new implementer of I becomes reachable
		Z := graphql.NewObject(graphql.ObjectConfig{Name: "Z", Interfaces: []*graphql.Interface{I}, Fields: graphql.Fields{
			"x": &graphql.Field{Type: graphql.String, Args: graphql.FieldConfigArgument{"p": &graphql.ArgumentConfig{Type: graphql.Int}}}, "s": &graphql.Field{Type: graphql.String}}})
		UZ := graphql.NewUnion(graphql.UnionConfig{Name: "UZ", Types: []*graphql.Object{Z, P}, ResolveType: func(p graphql.ResolveTypeParams) *graphql.Object { return Z }})
		b.extra = []graphql.Type{UZ}
	case 4:
		// an implementer of K whose covariant fields have a type that is itself new: XN
		// becomes a possible type of I only through this append
		XN := graphql.NewObject(graphql.ObjectConfig{Name: "XN", Interfaces: []*graphql.Interface{I}, Fields: graphql.Fields{
			"x": &graphql.Field{Type: graphql.String, Args: graphql.FieldConfigArgument{"p": &graphql.ArgumentConfig{Type: graphql.Int}}}, "s": &graphql.Field{Type: graphql.String}}})
		Y2 := graphql.NewObject(graphql.ObjectConfig{Name: "Y2", Interfaces: []*graphql.Interface{K}, Fields: graphql.Fields{
			"ki": &graphql.Field{Type: XN}, "ko": &graphql.Field{Type: O}, "kn": &graphql.Field{Type: graphql.NewNonNull(graphql.String)}, "kq": &graphql.Field{Type: graphql.String},
			"kx": &graphql.Field{Type: graphql.NewNonNull(O)}, "ky": &graphql.Field{Type: graphql.NewNonNull(XN)}, "kl": &graphql.Field{Type: graphql.NewNonNull(graphql.NewList(graphql.NewNonNull(graphql.String)))}}})
		b.extra = []graphql.Type{Y2}
	case 5:
		// a well-formed holder object that brings in an object which declares I without
		// implementing it (field s missing): appending must fail, or stay consistent
		Bad := graphql.NewObject(graphql.ObjectConfig{Name: "BadImpl", Interfaces: []*graphql.Interface{I}, Fields: graphql.Fields{
			"x": &graphql.Field{Type: graphql.String, Args: graphql.FieldConfigArgument{"p": &graphql.ArgumentConfig{Type: graphql.Int}}}}})
		H := graphql.NewObject(graphql.ObjectConfig{Name: "Holder", Fields: graphql.Fields{"z": &graphql.Field{Type: graphql.NewList(Bad)}}})
		b.extra = []graphql.Type{H}
		b.invalidExtra = true
	}
	if on("a nil type is appended") {
		b.extra = append(b.extra, nil)
		b.nilExtra = true
	}
	if on("a typed nil object is appended") {
		var no *graphql.Object
		b.extra = append(b.extra, no)
		b.nilExtra = true
	}
	return b
}

// ---- M-schema: consistency of a schema, evaluated through its public API ----

var nameRx = regexp.MustCompile(`^[_a-zA-Z][_a-zA-Z0-9]*$`)

func mschema(s *graphql.Schema) string {
	tm := s.TypeMap()
	for _, n := range []string{"__Schema", "__Type", "__Field", "__InputValue", "__EnumValue", "__Directive", "__TypeKind", "__DirectiveLocation", "String", "Boolean"} {
		if tm[n] == nil {
			return "type map lacks the built-in type " + n
		}
	}
	var check func(where string, t graphql.Type, wantInput, wantOutput bool) string
	check = func(where string, t graphql.Type, wantInput, wantOutput bool) string {
		switch tt := t.(type) {
		case nil:
			return where + ": nil type"
		case *graphql.NonNull:
			if tt.OfType == nil {
				return where + ": NonNull of nil"
			}
			if _, ok := tt.OfType.(*graphql.NonNull); ok {
				return where + ": NonNull of NonNull"
			}
			return check(where, tt.OfType, wantInput, wantOutput)
		case *graphql.List:
			if tt.OfType == nil {
				return where + ": List of nil"
			}
			return check(where, tt.OfType, wantInput, wantOutput)
		}
		if isNilType(t) {
			return where + ": nil type"
		}
		if tm[t.Name()] != t {
			return fmt.Sprintf("%s refers to a type named %q that is not the one in the type map (closure / uniqueness)", where, t.Name())
		}
		if wantInput && !graphql.IsInputType(t) {
			return fmt.Sprintf("%s: %s is not an input type", where, t.Name())
		}
		if wantOutput && !graphql.IsOutputType(t) {
			return fmt.Sprintf("%s: %s is not an output type", where, t.Name())
		}
		return ""
	}
	names := make([]string, 0, len(tm))
	for n := range tm {
		names = append(names, n)
	}
	sort.Strings(names)
	for _, n := range names {
		t := tm[n]
		if isNilType(t) {
			return "type map entry " + n + " is nil"
		}
		if t.Name() != n {
			return fmt.Sprintf("type map key %q holds a type named %q", n, t.Name())
		}
		if !nameRx.MatchString(n) {
			return fmt.Sprintf("type %q has an illegal name", n)
		}
		fieldsOf := func(fm graphql.FieldDefinitionMap) string {
			if len(fm) == 0 {
				return n + " has no fields"
			}
			for fname, f := range fm {
				if !nameRx.MatchString(fname) {
					return fmt.Sprintf("field %s.%s has an illegal name", n, fname)
				}
				if d := check(n+"."+fname, f.Type, false, true); d != "" {
					return d
				}
				for _, a := range f.Args {
					if !nameRx.MatchString(a.Name()) {
						return fmt.Sprintf("argument %s.%s(%s) has an illegal name", n, fname, a.Name())
					}
					if d := check(fmt.Sprintf("%s.%s(%s)", n, fname, a.Name()), a.Type, true, false); d != "" {
						return d
					}
				}
			}
			return ""
		}
		switch tt := t.(type) {
		case *graphql.Object:
			if d := fieldsOf(tt.Fields()); d != "" {
				return d
			}
			seen := map[string]bool{}
			for _, i := range tt.Interfaces() {
				if i == nil {
					return n + " declares a nil interface"
				}
				seen[i.Name()] = true
				if d := check(n+" implements", i, false, false); d != "" {
					return d
				}
				if d := implements(tt, i, s); d != "" {
					return d
				}
				if !s.IsPossibleType(i, tt) {
					return fmt.Sprintf("%s declares %s but IsPossibleType(%s, %s) is false", n, i.Name(), i.Name(), n)
				}
			}
		case *graphql.Interface:
			if d := fieldsOf(tt.Fields()); d != "" {
				return d
			}
			var decl []string
			for _, on := range names {
				if o, ok := tm[on].(*graphql.Object); ok {
					for _, i := range o.Interfaces() {
						if i == tt {
							decl = append(decl, on)
						}
					}
				}
			}
			var poss []string
			for _, o := range s.PossibleTypes(tt) {
				poss = append(poss, o.Name())
			}
			sort.Strings(poss)
			if strings.Join(poss, ",") != strings.Join(decl, ",") {
				return fmt.Sprintf("PossibleTypes(%s) = %v, but the objects declaring it are %v", n, poss, decl)
			}
		case *graphql.Union:
			ms := tt.Types()
			if len(ms) == 0 {
				return n + " has no members"
			}
			seen := map[string]bool{}
			for _, m := range ms {
				if m == nil {
					return n + " has a nil member"
				}
				seen[m.Name()] = true
				if d := check(n+" member", m, false, false); d != "" {
					return d
				}
				if !s.IsPossibleType(tt, m) {
					return fmt.Sprintf("IsPossibleType(%s, %s) is false for a member", n, m.Name())
				}
			}
		case *graphql.Enum:
			if len(tt.Values()) == 0 {
				return n + " has no values"
			}
			for _, v := range tt.Values() {
				if !nameRx.MatchString(v.Name) {
					return fmt.Sprintf("enum value %s.%s has an illegal name", n, v.Name)
				}
			}
		case *graphql.InputObject:
			fm := tt.Fields()
			if len(fm) == 0 {
				return n + " has no fields"
			}
			for fname, f := range fm {
				if !nameRx.MatchString(fname) {
					return fmt.Sprintf("input field %s.%s has an illegal name", n, fname)
				}
				if d := check(n+"."+fname, f.Type, true, false); d != "" {
					return d
				}
			}
		}
	}
	for _, r := range []*graphql.Object{s.QueryType(), s.MutationType(), s.SubscriptionType()} {
		if r != nil && tm[r.Name()] != graphql.Type(r) {
			return "a root type is not in the type map"
		}
	}
	if s.QueryType() == nil {
		return "schema without a query root"
	}
	for _, d := range s.Directives() {
		if d == nil {
			return "the schema lists a nil directive"
		}
		if !nameRx.MatchString(d.Name) {
			return fmt.Sprintf("directive @%s has an illegal name", d.Name)
		}
		for _, a := range d.Args {
			if a == nil {
				return fmt.Sprintf("directive @%s has a nil argument", d.Name)
			}
			if !nameRx.MatchString(a.Name()) {
				return fmt.Sprintf("argument %s of directive @%s has an illegal name", a.Name(), d.Name)
			}
			// arguments have input types (the closure of the type map is demanded for the
			// references the property lists; directive arguments are not among them)
			if dd := checkKind(fmt.Sprintf("@%s(%s)", d.Name, a.Name()), a.Type); dd != "" {
				return dd
			}
		}
	}
	return ""
}

// checkKind: the type of an argument is a non-nil input type (no closure demand).
func checkKind(where string, t graphql.Type) string {
	for {
		switch tt := t.(type) {
		case nil:
			return where + ": nil type"
		case *graphql.NonNull:
			if tt == nil {
				return where + ": nil type"
			}
			t = tt.OfType
			continue
		case *graphql.List:
			if tt == nil {
				return where + ": nil type"
			}
			t = tt.OfType
			continue
		}
		break
	}
	if isNilType(t) {
		return where + ": nil type"
	}
	if !graphql.IsInputType(t) {
		return fmt.Sprintf("%s: %s is not an input type", where, t.Name())
	}
	return ""
}

func isNilType(t graphql.Type) bool {
	switch tt := t.(type) {
	case nil:
		return true
	case *graphql.Object:
		return tt == nil
	case *graphql.Interface:
		return tt == nil
	case *graphql.Union:
		return tt == nil
	case *graphql.Enum:
		return tt == nil
	case *graphql.Scalar:
		return tt == nil
	case *graphql.InputObject:
		return tt == nil
	}
	return false
}

func subType(s *graphql.Schema, sub, sup graphql.Type) bool {
	if sub == sup {
		return true
	}
	if sn, ok := sup.(*graphql.NonNull); ok {
		if bn, ok := sub.(*graphql.NonNull); ok {
			return subType(s, bn.OfType, sn.OfType)
		}
		return false
	}
	if bn, ok := sub.(*graphql.NonNull); ok {
		return subType(s, bn.OfType, sup)
	}
	if sl, ok := sup.(*graphql.List); ok {
		if bl, ok := sub.(*graphql.List); ok {
			return subType(s, bl.OfType, sl.OfType)
		}
		return false
	}
	if _, ok := sub.(*graphql.List); ok {
		return false
	}
	if o, ok := sub.(*graphql.Object); ok {
		switch a := sup.(type) {
		case *graphql.Interface:
			for _, i := range o.Interfaces() {
				if i == a {
					return true
				}
			}
		case *graphql.Union:
			for _, m := range a.Types() {
				if m == o {
					return true
				}
			}
		}
	}
	return false
}

func sameType(a, b graphql.Type) bool {
	switch x := a.(type) {
	case *graphql.NonNull:
		y, ok := b.(*graphql.NonNull)
		return ok && sameType(x.OfType, y.OfType)
	case *graphql.List:
		y, ok := b.(*graphql.List)
		return ok && sameType(x.OfType, y.OfType)
	}
	return a == b
}

func implements(o *graphql.Object, i *graphql.Interface, s *graphql.Schema) string {
	of := o.Fields()
	for fname, ifd := range i.Fields() {
		ofd := of[fname]
		if ofd == nil {
			return fmt.Sprintf("%s declares %s but lacks its field %s", o.Name(), i.Name(), fname)
		}
		if !subType(s, ofd.Type, ifd.Type) {
			return fmt.Sprintf("%s.%s has type %v, not a subtype of %s.%s: %v", o.Name(), fname, ofd.Type, i.Name(), fname, ifd.Type)
		}
		for _, ia := range ifd.Args {
			var oa *graphql.Argument
			for _, a := range ofd.Args {
				if a.Name() == ia.Name() {
					oa = a
				}
			}
			if oa == nil {
				return fmt.Sprintf("%s.%s lacks the argument %s of %s", o.Name(), fname, ia.Name(), i.Name())
			}
			if !sameType(oa.Type, ia.Type) {
				return fmt.Sprintf("%s.%s(%s) has type %v, %s declares %v", o.Name(), fname, ia.Name(), oa.Type, i.Name(), ia.Type)
			}
		}
		for _, oa := range ofd.Args {
			found := false
			for _, ia := range ifd.Args {
				if ia.Name() == oa.Name() {
					found = true
				}
			}
			if _, req := oa.Type.(*graphql.NonNull); !found && req {
				return fmt.Sprintf("%s.%s adds the required argument %s, which %s does not declare", o.Name(), fname, oa.Name(), i.Name())
			}
		}
	}
	return ""
}

type outcome struct {
	bad      string
	fid      string
	desc     []string
	accepted bool
}

func signature(s *graphql.Schema) string {
	tm := s.TypeMap()
	var names []string
	for n := range tm {
		names = append(names, n)
	}
	sort.Strings(names)
	var b strings.Builder
	for _, n := range names {
		b.WriteString(n + ";")
		if a, ok := tm[n].(graphql.Abstract); ok {
			var ps []string
			for _, o := range s.PossibleTypes(a) {
				ps = append(ps, o.Name())
			}
			sort.Strings(ps)
			b.WriteString("poss=" + strings.Join(ps, ",") + ";")
			for _, on := range names {
				if o, ok := tm[on].(*graphql.Object); ok {
					fmt.Fprintf(&b, "%s?%v;", on, s.IsPossibleType(a, o))
				}
			}
		}
	}
	return b.String()
}

func execute(x *explore.X) (out outcome) {
	d := map[int]bool{}
	// defects: each switched on by one deviation
	for i, df := range defects {
		if x.Flip("defect") {
			d[i] = true
			out.desc = append(out.desc, df.name)
		}
	}
	appendOrder := x.Choose(6, "append")
	if appendOrder > 0 {
		out.desc = append(out.desc, fmt.Sprintf("append order %d", appendOrder))
	}
	defer func() {
		if p := recover(); p != nil {
			out.bad = fmt.Sprintf("schema construction panicked: %v", p)
			if d[15] {
				out.fid = "C11-F2"
			}
		}
	}()
	b := build(d, appendOrder)
	s, err := graphql.NewSchema(b.cfg)
	for _, t := range b.extra {
		if err != nil {
			break
		}
		err = s.AppendType(t)
	}
	if err != nil {
		// a configuration without defects must be accepted
		anyInvalid := b.invalidExtra
		for i := range d {
			if defects[i].invalid {
				anyInvalid = true
			}
		}
		if !anyInvalid {
			out.bad = "a consistent configuration is rejected: " + err.Error()
		}
		return
	}
	out.accepted = true
	if m := mschema(&s); m != "" {
		out.bad = "NewSchema returned no error but the schema is inconsistent: " + m
		if d[5] || d[6] {
			out.fid = "C11-F1"
		}
		return
	}
	// appending later gives the same schema as supplying the types up front
	if len(b.extra) > 0 && !b.nilExtra && !b.invalidExtra {
		b2 := build(d, appendOrder)
		b2.cfg.Types = append(b2.cfg.Types, b2.extra...)
		s2, err2 := graphql.NewSchema(b2.cfg)
		if err2 != nil {
			out.bad = "accepted when appended later but rejected when supplied up front: " + err2.Error()
			return
		}
		if a, c := signature(&s), signature(&s2); a != c {
			out.bad = fmt.Sprintf("appending later differs from supplying up front: %s vs %s", a, c)
		}
	}
	return
}

func run(c *core.Ctx) {
	k := c.Pick(2, 3)
	c.R.Rule = "case = base configuration (objects, two interfaces with covariant fields, union, enum, scalar, input object, three roots) + every combination of <= k of 63 configuration defects/variants (duplicate and illegal names of every kind, empty sets, nil members / entries / types / field, argument, input-field and enum-value configurations, typed nil pointers in type positions and as a root, custom directives with nil / output-typed / untyped arguments and illegal names, a nil directive, nil and typed-nil appended types, every way of mis-implementing an interface incl. argument subtypes and list-vs-non-list, errors parked on roots and union members, NonNull of NonNull, types in wrong positions, thunks, cycles, missing root, duplicates) x 6 append histories; non-trivial = at least one defect"
	c.R.Assumptions = []string{"M-schema: the consistency predicate of the property evaluated through TypeMap, Fields, Interfaces, Types, Values, PossibleTypes, IsPossibleType", "Go toolchain"}
	c.R.Bounds["defects"] = k
	e := c.Explorer(k)
	accepted, rejected := map[int]int{}, map[int]int{}
	e.Run(func(x *explore.X, owned bool) uint64 {
		out := execute(x)
		dig := report.H(strings.Join(out.desc, ";") + out.bad + fmt.Sprint(out.accepted))
		if !owned {
			return dig
		}
		c.R.Evaluations++
		c.R.States++
		c.R.Outcome(dig)
		if x.Devs() > 0 {
			c.R.Nontriv(report.H(fmt.Sprint(x.Trace())))
		}
		if out.accepted {
			c.R.Count("accepted", 1)
		} else {
			c.R.Count("rejected", 1)
		}
		_ = accepted
		_ = rejected
		if c.R.WantSample() {
			c.R.Sample(map[string]interface{}{"defects": out.desc, "accepted": out.accepted})
		}
		if out.bad != "" {
			c.Mismatch(out.fid, sigOf(out.bad), fmt.Sprintf("configuration with %v: %s", out.desc, out.bad), map[string]interface{}{"choices": x.Trace()})
		}
		return dig
	})
	c.Absorb(e)
}

func sigOf(s string) string {
	f := strings.Fields(s)
	if len(f) > 12 {
		f = f[:12]
	}
	return strings.Join(f, " ")
}

func replay(c *core.Ctx, p map[string]interface{}) (bool, string) {
	var choices []int
	for _, v := range p["choices"].([]interface{}) {
		choices = append(choices, int(v.(float64)))
	}
	var out outcome
	explore.Replay(choices, 0, func(x *explore.X, owned bool) uint64 {
		out = execute(x)
		return 0
	})
	if out.bad != "" {
		return false, fmt.Sprintf("configuration with %v: %s", out.desc, out.bad)
	}
	return true, fmt.Sprintf("configuration with %v: accepted=%v and consistent", out.desc, out.accepted)
}
