package main

// The checks register themselves in init functions of their packages.
import (
	_ "verif/h/c01"
	_ "verif/h/c02"
	_ "verif/h/c03"
	_ "verif/h/c04"
	_ "verif/h/c05"
	_ "verif/h/c06"
	_ "verif/h/c07"
	_ "verif/h/c08"
	_ "verif/h/c09"
	_ "verif/h/c10"
	_ "verif/h/c11"
	_ "verif/h/c12"
	_ "verif/h/c13"
	_ "verif/h/c14"
	_ "verif/h/c15"
	_ "verif/h/c16"
	_ "verif/h/c17"
	_ "verif/h/c18"
	_ "verif/h/c19"
)
