// Package astx gives the harness a reflection-based, keymap-independent view of the
// library's AST: children in source order, deep dumps with or without locations.
package astx

import (
	"fmt"
	"reflect"
	"sort"
	"strconv"
	"strings"

	"github.com/graphql-go/graphql/language/ast"
)

var nodeType = reflect.TypeOf((*ast.Node)(nil)).Elem()

// Child is one child slot of a node: either a single node or a non-empty list of nodes.
type Child struct {
	Key   string
	Node  ast.Node   // single
	List  []ast.Node // list elements (len > 0)
	start int
}

func isNil(n ast.Node) bool {
	if n == nil {
		return true
	}
	v := reflect.ValueOf(n)
	return v.Kind() == reflect.Ptr && v.IsNil()
}

func start(n ast.Node) int {
	if isNil(n) {
		return -1
	}
	if l := n.GetLoc(); l != nil {
		return l.Start
	}
	return -1
}

// Children lists the child slots of n that hold nodes, ordered by source position (ties
// and missing locations keep struct field order). Description fields are not children in
// the edition of the language this library ports (its visitor key table omits them).
func Children(n ast.Node) []Child {
	if isNil(n) {
		return nil
	}
	v := reflect.ValueOf(n)
	if v.Kind() == reflect.Ptr {
		v = v.Elem()
	}
	if v.Kind() != reflect.Struct {
		return nil
	}
	t := v.Type()
	var out []Child
	for i := 0; i < v.NumField(); i++ {
		f := t.Field(i)
		if f.Name == "Kind" || f.Name == "Loc" || f.Name == "Description" || f.PkgPath != "" {
			continue
		}
		fv := v.Field(i)
		switch fv.Kind() {
		case reflect.Ptr, reflect.Interface:
			if fv.IsNil() {
				continue
			}
			if c, ok := fv.Interface().(ast.Node); ok && !isNil(c) {
				out = append(out, Child{Key: f.Name, Node: c, start: start(c)})
			}
		case reflect.Slice:
			if fv.Len() == 0 {
				continue
			}
			var list []ast.Node
			all := true
			for j := 0; j < fv.Len(); j++ {
				c, ok := fv.Index(j).Interface().(ast.Node)
				if !ok {
					all = false
					break
				}
				list = append(list, c)
			}
			if all {
				out = append(out, Child{Key: f.Name, List: list, start: start(list[0])})
			}
		}
	}
	sort.SliceStable(out, func(i, j int) bool {
		if out[i].start < 0 || out[j].start < 0 {
			return false
		}
		return out[i].start < out[j].start
	})
	return out
}

// Dump renders a node and everything below it (all exported fields, including
// descriptions) as an S-expression. With loc, every node carries its Start:End.
func Dump(n interface{}, loc bool) string {
	var b strings.Builder
	dump(&b, reflect.ValueOf(n), loc)
	return b.String()
}

func dump(b *strings.Builder, v reflect.Value, loc bool) {
	if !v.IsValid() {
		b.WriteString("nil")
		return
	}
	switch v.Kind() {
	case reflect.Interface:
		if v.IsNil() {
			b.WriteString("nil")
			return
		}
		dump(b, v.Elem(), loc)
	case reflect.Ptr:
		if v.IsNil() {
			b.WriteString("nil")
			return
		}
		dump(b, v.Elem(), loc)
	case reflect.Struct:
		t := v.Type()
		if t.Name() == "Location" {
			return
		}
		b.WriteString("(")
		b.WriteString(t.Name())
		for i := 0; i < v.NumField(); i++ {
			f := t.Field(i)
			if f.PkgPath != "" {
				continue
			}
			fv := v.Field(i)
			if f.Name == "Loc" {
				if loc {
					if fv.IsNil() {
						b.WriteString(" @nil")
					} else {
						l := fv.Interface().(*ast.Location)
						fmt.Fprintf(b, " @%d:%d", l.Start, l.End)
					}
				}
				continue
			}
			if f.Name == "Kind" {
				if k := fv.String(); k != t.Name() {
					b.WriteString(" Kind=" + k)
				}
				continue
			}
			// skip empty
			switch fv.Kind() {
			case reflect.Ptr, reflect.Interface, reflect.Slice, reflect.Map:
				if fv.IsNil() || (fv.Kind() == reflect.Slice && fv.Len() == 0) {
					continue
				}
			case reflect.String:
				if fv.Len() == 0 && f.Name != "Value" {
					continue
				}
			}
			b.WriteString(" ")
			b.WriteString(f.Name)
			b.WriteString(":")
			dump(b, fv, loc)
		}
		b.WriteString(")")
	case reflect.Slice:
		b.WriteString("[")
		for i := 0; i < v.Len(); i++ {
			if i > 0 {
				b.WriteString(" ")
			}
			dump(b, v.Index(i), loc)
		}
		b.WriteString("]")
	case reflect.String:
		b.WriteString(strconv.Quote(v.String()))
	case reflect.Bool:
		b.WriteString(strconv.FormatBool(v.Bool()))
	case reflect.Int, reflect.Int64, reflect.Int32:
		b.WriteString(strconv.FormatInt(v.Int(), 10))
	default:
		fmt.Fprintf(b, "%v", v.Interface())
	}
}

// Count returns the number of nodes reachable through Children.
func Count(n ast.Node) int {
	if isNil(n) {
		return 0
	}
	c := 1
	for _, ch := range Children(n) {
		if ch.Node != nil {
			c += Count(ch.Node)
		}
		for _, e := range ch.List {
			c += Count(e)
		}
	}
	return c
}

// DumpCanon renders a node like Dump but with the fields of every node sorted by name and
// without the Kind field, the canonical form shared with the model parser's Node.Dump.
func DumpCanon(n interface{}, loc bool) string {
	var b strings.Builder
	dumpCanon(&b, reflect.ValueOf(n), loc)
	return b.String()
}

func dumpCanon(b *strings.Builder, v reflect.Value, loc bool) {
	if !v.IsValid() {
		b.WriteString("nil")
		return
	}
	switch v.Kind() {
	case reflect.Interface, reflect.Ptr:
		if v.IsNil() {
			b.WriteString("nil")
			return
		}
		dumpCanon(b, v.Elem(), loc)
	case reflect.Struct:
		t := v.Type()
		b.WriteString("(" + t.Name())
		type fld struct {
			name string
			v    reflect.Value
		}
		var fs []fld
		for i := 0; i < v.NumField(); i++ {
			f := t.Field(i)
			if f.PkgPath != "" || f.Name == "Kind" {
				continue
			}
			fv := v.Field(i)
			if f.Name == "Loc" {
				if loc {
					if fv.IsNil() {
						b.WriteString(" @nil")
					} else {
						l := fv.Interface().(*ast.Location)
						fmt.Fprintf(b, " @%d:%d", l.Start, l.End)
					}
				}
				continue
			}
			switch fv.Kind() {
			case reflect.Ptr, reflect.Interface, reflect.Slice, reflect.Map:
				if fv.IsNil() || (fv.Kind() == reflect.Slice && fv.Len() == 0) {
					continue
				}
				if fv.Kind() == reflect.Interface && fv.Elem().Kind() == reflect.Ptr && fv.Elem().IsNil() {
					continue
				}
			case reflect.String:
				if fv.Len() == 0 && f.Name != "Value" {
					continue
				}
			}
			fs = append(fs, fld{f.Name, fv})
		}
		sort.Slice(fs, func(i, j int) bool { return fs[i].name < fs[j].name })
		for _, f := range fs {
			b.WriteString(" " + f.name + ":")
			dumpCanon(b, f.v, loc)
		}
		b.WriteString(")")
	case reflect.Slice:
		b.WriteString("[")
		for i := 0; i < v.Len(); i++ {
			if i > 0 {
				b.WriteString(" ")
			}
			dumpCanon(b, v.Index(i), loc)
		}
		b.WriteString("]")
	case reflect.String:
		b.WriteString(strconv.Quote(v.String()))
	case reflect.Bool:
		b.WriteString(strconv.FormatBool(v.Bool()))
	default:
		fmt.Fprintf(b, "%v", v.Interface())
	}
}
