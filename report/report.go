// Package report holds the partial evidence record each worker writes and the merge
// performed by the runner.
package report

import (
	"encoding/json"
	"fmt"
	"hash/fnv"
	"os"
	"sort"
)

// Violation is one unlisted property violation with everything needed to replay it.
type Violation struct {
	Sig    string                 `json:"sig"`    // dedup key (class of failure)
	What   string                 `json:"what"`   // human readable one-liner
	Replay map[string]interface{} `json:"replay"` // check-specific payload consumed by `h -replay`
}

// Part is what one worker (one shard of one check) reports.
type Part struct {
	Property string `json:"property"`
	Tier     string `json:"tier"`
	Shard    int    `json:"shard"`
	NShards  int    `json:"nshards"`

	Evaluations uint64 `json:"evaluations"` // executions of the real code judged by an oracle
	States      uint64 `json:"states"`      // distinct explored cases / states
	Transitions uint64 `json:"transitions"` // choice points / operations / scheduling points taken
	Replicated  uint64 `json:"replicated"`  // top-of-tree executions run only to discover children

	Nontrivial  []uint64 `json:"nontrivial"` // hashes of distinct non-trivial cases (capped)
	NontrivialN uint64   `json:"nontrivial_n"`
	Outcomes    []uint64 `json:"outcomes"` // hashes of distinct observations (capped)
	OutcomesN   uint64   `json:"outcomes_n"`

	Samples []interface{} `json:"samples"`

	Violations []Violation       `json:"violations"`
	ViolationN uint64            `json:"violation_n"`
	Findings   map[string]uint64 `json:"findings"`        // known finding id -> times observed
	FindingEx  map[string]string `json:"finding_example"` // id -> one witness

	Exhaustive  bool                   `json:"exhaustive"`
	DeadlineHit bool                   `json:"deadline_hit"`
	MaxDepth    int                    `json:"max_depth"`
	Rechecks    uint64                 `json:"rechecks"`
	Bounds      map[string]interface{} `json:"bounds"`
	Counters    map[string]uint64      `json:"counters"` // free-form additive counters
	Notes       []string               `json:"notes"`
	Rule        string                 `json:"rule"`
	Assumptions []string               `json:"assumptions"`

	HarnessErrors []string `json:"harness_errors"`

	ntSet  map[uint64]struct{}
	outSet map[uint64]struct{}
	vsigs  map[string]int
}

const capHashes = 200000

func New(property, tier string, shard, nshards int) *Part {
	return &Part{Property: property, Tier: tier, Shard: shard, NShards: nshards,
		Findings: map[string]uint64{}, FindingEx: map[string]string{}, Bounds: map[string]interface{}{},
		Counters: map[string]uint64{}, Exhaustive: true,
		ntSet: map[uint64]struct{}{}, outSet: map[uint64]struct{}{}, vsigs: map[string]int{}}
}

func H(s string) uint64 {
	h := fnv.New64a()
	h.Write([]byte(s))
	return h.Sum64()
}

// Nontriv records a distinct non-trivial case (by hash).
func (p *Part) Nontriv(h uint64) {
	if _, ok := p.ntSet[h]; ok {
		return
	}
	if len(p.ntSet) < capHashes {
		p.ntSet[h] = struct{}{}
		p.NontrivialN++
	}
}

// Outcome records a distinct observation digest.
func (p *Part) Outcome(h uint64) {
	if _, ok := p.outSet[h]; ok {
		return
	}
	if len(p.outSet) < capHashes {
		p.outSet[h] = struct{}{}
		p.OutcomesN++
	}
}

func (p *Part) Count(name string, n uint64) { p.Counters[name] += n }

// Sample keeps a few decoded cases: the first ones and then progressively rarer ones.
func (p *Part) Sample(v interface{}) {
	if len(p.Samples) < 3 {
		p.Samples = append(p.Samples, v)
		return
	}
	if len(p.Samples) < 6 && (p.Evaluations&(p.Evaluations-1)) == 0 { // powers of two
		p.Samples = append(p.Samples, v)
	}
}

// WantSample tells cheaply whether Sample would keep a value now.
func (p *Part) WantSample() bool {
	return len(p.Samples) < 3 || (len(p.Samples) < 6 && (p.Evaluations&(p.Evaluations-1)) == 0)
}

func (p *Part) Violate(sig, what string, replay map[string]interface{}) {
	p.ViolationN++
	if n := p.vsigs[sig]; n >= 1 {
		p.vsigs[sig] = n + 1
		return
	}
	p.vsigs[sig] = 1
	if len(p.Violations) < 40 {
		p.Violations = append(p.Violations, Violation{Sig: sig, What: what, Replay: replay})
	}
}

func (p *Part) Finding(id, example string) {
	p.Findings[id]++
	if _, ok := p.FindingEx[id]; !ok {
		p.FindingEx[id] = example
	}
}

func (p *Part) Note(format string, a ...interface{}) {
	if len(p.Notes) < 50 {
		p.Notes = append(p.Notes, fmt.Sprintf(format, a...))
	}
}

func (p *Part) HarnessError(format string, a ...interface{}) {
	if len(p.HarnessErrors) < 20 {
		p.HarnessErrors = append(p.HarnessErrors, fmt.Sprintf(format, a...))
	}
}

func (p *Part) Write(path string) error {
	p.Nontrivial = p.Nontrivial[:0]
	for h := range p.ntSet {
		p.Nontrivial = append(p.Nontrivial, h)
	}
	p.Outcomes = p.Outcomes[:0]
	for h := range p.outSet {
		p.Outcomes = append(p.Outcomes, h)
	}
	sort.Slice(p.Nontrivial, func(i, j int) bool { return p.Nontrivial[i] < p.Nontrivial[j] })
	sort.Slice(p.Outcomes, func(i, j int) bool { return p.Outcomes[i] < p.Outcomes[j] })
	b, err := json.Marshal(p)
	if err != nil {
		return err
	}
	tmp := path + ".tmp"
	if err := os.WriteFile(tmp, b, 0o644); err != nil {
		return err
	}
	return os.Rename(tmp, path)
}

func Read(path string) (*Part, error) {
	b, err := os.ReadFile(path)
	if err != nil {
		return nil, err
	}
	p := &Part{}
	if err := json.Unmarshal(b, p); err != nil {
		return nil, err
	}
	return p, nil
}

// Merged is the union of all shards.
type Merged struct {
	Part
	DistinctNontrivial uint64
	DistinctOutcomes   uint64
}

func Merge(parts []*Part) *Merged {
	m := &Merged{}
	m.Findings = map[string]uint64{}
	m.FindingEx = map[string]string{}
	m.Bounds = map[string]interface{}{}
	m.Counters = map[string]uint64{}
	m.Exhaustive = true
	nt := map[uint64]struct{}{}
	out := map[uint64]struct{}{}
	sigs := map[string]bool{}
	var ntOverflow, outOverflow uint64
	for _, p := range parts {
		m.Property, m.Tier, m.NShards = p.Property, p.Tier, p.NShards
		m.Evaluations += p.Evaluations
		m.States += p.States
		m.Transitions += p.Transitions
		m.Replicated += p.Replicated
		m.ViolationN += p.ViolationN
		m.Rechecks += p.Rechecks
		if p.MaxDepth > m.MaxDepth {
			m.MaxDepth = p.MaxDepth
		}
		for _, h := range p.Nontrivial {
			nt[h] = struct{}{}
		}
		if p.NontrivialN > uint64(len(p.Nontrivial)) {
			ntOverflow += p.NontrivialN - uint64(len(p.Nontrivial))
		}
		for _, h := range p.Outcomes {
			out[h] = struct{}{}
		}
		if p.OutcomesN > uint64(len(p.Outcomes)) {
			outOverflow += p.OutcomesN - uint64(len(p.Outcomes))
		}
		for _, s := range p.Samples {
			if len(m.Samples) < 8 {
				m.Samples = append(m.Samples, s)
			}
		}
		for _, v := range p.Violations {
			if !sigs[v.Sig] {
				sigs[v.Sig] = true
				m.Violations = append(m.Violations, v)
			}
		}
		for k, v := range p.Findings {
			m.Findings[k] += v
		}
		for k, v := range p.FindingEx {
			if _, ok := m.FindingEx[k]; !ok {
				m.FindingEx[k] = v
			}
		}
		for k, v := range p.Counters {
			m.Counters[k] += v
		}
		for k, v := range p.Bounds {
			m.Bounds[k] = v
		}
		if !p.Exhaustive {
			m.Exhaustive = false
		}
		if p.DeadlineHit {
			m.DeadlineHit = true
			m.Exhaustive = false
		}
		for _, n := range p.Notes {
			if len(m.Notes) < 30 {
				dup := false
				for _, o := range m.Notes {
					if o == n {
						dup = true
					}
				}
				if !dup {
					m.Notes = append(m.Notes, n)
				}
			}
		}
		m.HarnessErrors = append(m.HarnessErrors, p.HarnessErrors...)
		if p.Rule != "" {
			m.Rule = p.Rule
		}
		if len(p.Assumptions) > 0 {
			m.Assumptions = p.Assumptions
		}
	}
	// hashes beyond the per-shard cap were counted by the shard but not shipped: they are
	// distinct from the shipped ones of the same shard; across shards they are assumed
	// disjoint only when cases are sharded disjointly (true for all checks here).
	m.DistinctNontrivial = uint64(len(nt)) + ntOverflow
	m.DistinctOutcomes = uint64(len(out)) + outOverflow
	return m
}
