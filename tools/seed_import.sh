#!/bin/bash
# usage: seed_import.sh <dir-with-seed-outputs>... : copies each delivered seed (patch.diff,
# demo_test.go, meta.json) into /verif/seeded/<slug>/, verifies it in a scratch worktree and
# runs the owning check against it through the overlay; appends one line per seed to
# seeded/RESULTS-r${ROUND:-4}.txt
cd /verif
for src in "$@"; do
  slug=$(basename "$src")
  [ -f "$src/patch.diff" ] && [ -f "$src/meta.json" ] || { echo "$slug: incomplete"; continue; }
  mkdir -p seeded/$slug
  cp "$src/patch.diff" "$src/meta.json" seeded/$slug/
  cp "$src/demo_test.go" seeded/$slug/demo_test.go.txt 2>/dev/null
  v=$(tools/seed_verify.sh seeded/$slug 2>&1 | tail -1 | sed "s/^$slug: //")
  props=$(python3 -c "import json;m=json.load(open('seeded/$slug/meta.json'));print(' '.join([m['property']]+m.get('also_check',[])))")
  ev=$(tools/seed_eval.sh seeded/$slug $props 2>&1 | grep "^$slug" | sed "s/^$slug //" | cut -c1-300 | tr '\n' ';')
  echo "$slug | $v | $ev" | tee -a seeded/RESULTS-r${ROUND:-4}.txt
done
