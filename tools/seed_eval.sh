#!/bin/bash
# usage: seed_eval.sh <seed-dir> [property ...] : runs the owning check(s) against a seeded
# change WITHOUT touching /repo: the patch is applied in a scratch worktree, the changed
# files are handed to the runner, which injects them through the build overlay.
export GOFLAGS=-mod=mod GOPROXY=off GOSUMDB=off GOTOOLCHAIN=local
d=$(realpath "$1"); name=$(basename "$d"); shift
props="$@"
[ -z "$props" ] && props=$(python3 -c "import json;print(json.load(open('$d/meta.json'))['property'])")
wt=/tmp/se-$name-$$; pd=/tmp/se-patched-$name-$$
git -C /repo worktree add --detach "$wt" HEAD >/dev/null 2>&1 || { echo "$name: WORKTREE-FAILED"; exit 2; }
cleanup() { git -C /repo worktree remove --force "$wt" >/dev/null 2>&1; rm -rf "$wt" "$pd"; }
trap cleanup EXIT
if ! git -C "$wt" apply "$d/patch.diff" 2>/dev/null; then echo "$name: PATCH-DOES-NOT-APPLY"; exit 3; fi
mkdir -p "$pd"
for f in $(git -C "$wt" diff --name-only); do mkdir -p "$pd/$(dirname $f)"; cp "$wt/$f" "$pd/$f"; done
for p in $props; do
  out=$(VERIF_PATCH_DIR="$pd" /verif/bin/verif mutant-check $p $name 2>&1); rc=$?
  v=MISSED; [ $rc -eq 1 ] && v=caught; [ $rc -ne 0 ] && [ $rc -ne 1 ] && v="exit-$rc"
  what=$(echo "$out" | grep -m1 "  what:" | cut -c1-300)
  [ "$v" != caught ] && what="$what $(echo "$out" | grep -m1 -E 'HARNESS|BUILD' | cut -c1-200)"
  echo "$name $p: $v $what"
done
