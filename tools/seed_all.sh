#!/bin/bash
# re-verifies every seeded change against /repo's HEAD (applies, suite green, demo fails with
# it and passes without) and runs the owning check(s) on it; writes seeded/RESULTS.txt
cd /verif
out=${OUT:-seeded/RESULTS.txt}; tmp=/tmp/seed_all.$$; mkdir -p $tmp
list=${LIST:-$(ls -d seeded/*/)}
echo $list | tr ' ' '\n' | xargs -P 5 -I{} sh -c 'tools/seed_verify.sh {} > '$tmp'/$(basename {}).verify 2>&1'
{
echo "# seed | verification at $(git -C /repo rev-parse --short HEAD) | check verdicts"
for d in $list; do
  n=$(basename $d)
  props=$(python3 -c "import json;m=json.load(open('$d/meta.json'));print(' '.join([m['property']]+m.get('also_check',[])))")
  ev=$(tools/seed_eval.sh $d $props 2>&1 | grep "^$n" | sed "s/^$n //" | cut -c1-260 | tr '\n' ';')
  echo "$n | $(cat $tmp/$n.verify | sed "s/^$n: //") | $ev"
done
} > $out
rm -rf $tmp
