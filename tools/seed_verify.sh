#!/bin/bash
# usage: seed_verify.sh <seed-dir> : confirms in a scratch worktree that the seeded change
# applies to /repo's HEAD, compiles, keeps the repository suite green, and that its
# demonstration fails with the change and passes without. Prints one verdict line.
export GOFLAGS=-mod=mod GOPROXY=off GOSUMDB=off GOTOOLCHAIN=local
d=$(realpath "$1"); name=$(basename "$d")
wt=/tmp/sv-$name-$$
git -C /repo worktree add --detach "$wt" HEAD >/dev/null 2>&1 || { echo "$name: WORKTREE-FAILED"; exit 2; }
cleanup() { git -C /repo worktree remove --force "$wt" >/dev/null 2>&1; rm -rf "$wt"; }
trap cleanup EXIT
pkg=$(python3 -c "import json,sys;print(json.load(open('$d/meta.json')).get('demo_pkg_dir','.'))" 2>/dev/null || echo .)
demo=$(ls "$d"/demo_test.go "$d"/demo_test.go.txt 2>/dev/null | head -1)
run_demo() { # returns 0 if the demo passes
  cp "$demo" "$wt/$pkg/zz_seed_demo_test.go"
  (cd "$wt/$pkg" && timeout 600 go test -vet=off -count=1 -run . -timeout 300s . >"$2" 2>&1)
  rc=$?
  rm -f "$wt/$pkg/zz_seed_demo_test.go"
  return $rc
}
race=""
grep -q -- "-race" "$d/meta.json" && race="-race"
if [ -n "$race" ]; then
run_demo() {
  cp "$demo" "$wt/$pkg/zz_seed_demo_test.go"
  (cd "$wt/$pkg" && timeout 900 go test -race -vet=off -count=1 -timeout 600s . -run "$(grep -o 'func Test[A-Za-z0-9_]*' "$demo" | head -1 | sed 's/func //')" >"$2" 2>&1)
  rc=$?
  rm -f "$wt/$pkg/zz_seed_demo_test.go"
  return $rc
}
else
run_demo() {
  cp "$demo" "$wt/$pkg/zz_seed_demo_test.go"
  (cd "$wt/$pkg" && timeout 900 go test -vet=off -count=1 -timeout 600s . -run "$(grep -o 'func Test[A-Za-z0-9_]*' "$demo" | tr '\n' '|' | sed 's/func //g; s/|$//')" >"$2" 2>&1)
  rc=$?
  rm -f "$wt/$pkg/zz_seed_demo_test.go"
  return $rc
}
fi
out=/tmp/sv-log-$name; mkdir -p $out
run_demo x $out/clean.log; clean=$?
if ! git -C "$wt" apply "$d/patch.diff" 2>$out/apply.log; then echo "$name: PATCH-DOES-NOT-APPLY clean_demo_rc=$clean"; exit 1; fi
if ! (cd "$wt" && go build ./... 2>$out/build.log); then echo "$name: BUILD-FAILS"; exit 1; fi
(cd "$wt" && go test -vet=off -count=1 ./... >$out/suite.log 2>&1); suite=$?
if [ $suite -ne 0 ]; then (cd "$wt" && go test -vet=off -count=1 ./... >$out/suite2.log 2>&1); suite=$?; fi
run_demo x $out/mut.log; mut=$?
echo "$name: applies=yes suite_rc=$suite demo_clean_rc=$clean demo_mutated_rc=$mut"
