#!/bin/bash
# runs every registered quick (or $1=thorough) check in sequence and prints one summary line each
cd /verif
export GOFLAGS=-mod=mod GOPROXY=off GOSUMDB=off GOTOOLCHAIN=local
tier=${1:-quick}
for id in $(python3 -c "import json;print(' '.join(c['property_id'] for c in json.load(open('MANIFEST.json'))['checks']))"); do
  out=$(bin/verif check $id --tier $tier 2>&1); rc=$?
  echo "$id rc=$rc $(echo "$out" | grep "^$id $tier" | cut -c1-200)"
  echo "$out" | grep -E "^VIOLATION|^  what|HARNESS" | head -6 | cut -c1-300
done
