#!/usr/bin/env python3
"""Folds seeded/RESULTS*.txt (written by tools/seed_all.sh) into each seeded/<id>/meta.json
and prints the table that DESIGN.md section 9.5 carries."""
import json, re, sys, glob, os
rows = {}
for f in sorted(glob.glob('/verif/seeded/RESULTS*.txt')):
    head = None
    for line in open(f):
        line = line.rstrip('\n')
        if line.startswith('#'):
            m = re.search(r'verification at (\w+)', line); head = m.group(1) if m else None
            continue
        parts = [p.strip() for p in line.split(' | ')]
        if len(parts) < 3: continue
        rows[parts[0]] = (head, parts[1], ' | '.join(parts[2:]))
table = []
for name, (head, ver, ev) in sorted(rows.items()):
    d = '/verif/seeded/' + name
    if not os.path.isdir(d): continue
    meta = json.load(open(d + '/meta.json'))
    kv = dict(re.findall(r'(\w+)=(\S+)', ver))
    applies = kv.get('applies') == 'yes'
    suite = kv.get('suite_rc') == '0'
    clean = kv.get('demo_clean_rc') == '0'
    mut = kv.get('demo_mutated_rc', '0') != '0'
    checks = {}
    what = ''
    for m in re.finditer(r'(C\d\d): (caught|MISSED|exit-\d+)\s*(?:what: ([^;]*))?', ev):
        checks[m.group(1)] = m.group(2)
        if m.group(2) == 'caught' and not what and m.group(3): what = m.group(3).strip()[:240]
    note = meta.get('evaluation', {}).get('note', '')
    if not applies: status = 'patch does not apply to HEAD'
    elif not mut and not clean: status = 'demonstration fails without the change'
    elif not mut: status = 'superseded: no longer property-breaking on HEAD (its demonstration passes with the change)'
    elif not suite and 'flaky' not in note: status = 'superseded: the repository suite now fails with the change'
    else: status = 'valid'
    meta['evaluation'] = {'repo_head': head, 'applies': applies, 'suite_green_with_change': suite, 'demo_passes_without_change': clean,
                          'demo_fails_with_change': mut, 'status': status, 'checks': checks, 'first_report': what,
                          'ran': 'tools/seed_verify.sh (scratch worktree of HEAD: apply, build, full suite, demonstration with and without) and tools/seed_eval.sh (changed files through the build overlay, owning check quick tier)'}
    if note: meta['evaluation']['note'] = note
    json.dump(meta, open(d + '/meta.json', 'w'), indent=2)
    table.append((name, status, checks))
print('| seeded change | status on HEAD | verdict of the owning check |')
print('|---|---|---|')
for name, status, checks in table:
    print('| %s | %s | %s |' % (name, 'valid' if status == 'valid' else status, ', '.join('%s %s' % kv for kv in sorted(checks.items()))))
c = sum(1 for _, s, ch in table if s == 'valid'); k = sum(1 for _, s, ch in table if s == 'valid' and 'caught' in ch.values())
print('\n%d seeded changes, %d valid on HEAD, %d of them caught by the owning check' % (len(table), c, k))
