// Package vatomic replaces sync/atomic in instrumented library files: the real atomic
// operation, optionally preceded by a scheduling point (vsched.AtomicPoints).
package vatomic

import (
	"sync/atomic"

	"github.com/graphql-go/graphql/vsched"
)

func pt() {
	if vsched.AtomicPoints {
		vsched.Yield()
	}
}

type Uint64 struct{ v atomic.Uint64 }

func (x *Uint64) Load() uint64                    { pt(); return x.v.Load() }
func (x *Uint64) Store(v uint64)                  { pt(); x.v.Store(v) }
func (x *Uint64) Add(d uint64) uint64             { pt(); return x.v.Add(d) }
func (x *Uint64) Swap(v uint64) uint64            { pt(); return x.v.Swap(v) }
func (x *Uint64) CompareAndSwap(o, n uint64) bool { pt(); return x.v.CompareAndSwap(o, n) }

type Int64 struct{ v atomic.Int64 }

func (x *Int64) Load() int64                    { pt(); return x.v.Load() }
func (x *Int64) Store(v int64)                  { pt(); x.v.Store(v) }
func (x *Int64) Add(d int64) int64              { pt(); return x.v.Add(d) }
func (x *Int64) Swap(v int64) int64             { pt(); return x.v.Swap(v) }
func (x *Int64) CompareAndSwap(o, n int64) bool { pt(); return x.v.CompareAndSwap(o, n) }

type Uint32 struct{ v atomic.Uint32 }

func (x *Uint32) Load() uint32                    { pt(); return x.v.Load() }
func (x *Uint32) Store(v uint32)                  { pt(); x.v.Store(v) }
func (x *Uint32) Add(d uint32) uint32             { pt(); return x.v.Add(d) }
func (x *Uint32) Swap(v uint32) uint32            { pt(); return x.v.Swap(v) }
func (x *Uint32) CompareAndSwap(o, n uint32) bool { pt(); return x.v.CompareAndSwap(o, n) }

type Int32 struct{ v atomic.Int32 }

func (x *Int32) Load() int32                    { pt(); return x.v.Load() }
func (x *Int32) Store(v int32)                  { pt(); x.v.Store(v) }
func (x *Int32) Add(d int32) int32              { pt(); return x.v.Add(d) }
func (x *Int32) Swap(v int32) int32             { pt(); return x.v.Swap(v) }
func (x *Int32) CompareAndSwap(o, n int32) bool { pt(); return x.v.CompareAndSwap(o, n) }

type Bool struct{ v atomic.Bool }

func (x *Bool) Load() bool                    { pt(); return x.v.Load() }
func (x *Bool) Store(v bool)                  { pt(); x.v.Store(v) }
func (x *Bool) Swap(v bool) bool              { pt(); return x.v.Swap(v) }
func (x *Bool) CompareAndSwap(o, n bool) bool { pt(); return x.v.CompareAndSwap(o, n) }

type Value struct{ v atomic.Value }

func (x *Value) Load() interface{}   { pt(); return x.v.Load() }
func (x *Value) Store(v interface{}) { pt(); x.v.Store(v) }

type Pointer[T any] struct{ v atomic.Pointer[T] }

func (x *Pointer[T]) Load() *T                    { pt(); return x.v.Load() }
func (x *Pointer[T]) Store(v *T)                  { pt(); x.v.Store(v) }
func (x *Pointer[T]) Swap(v *T) *T                { pt(); return x.v.Swap(v) }
func (x *Pointer[T]) CompareAndSwap(o, n *T) bool { pt(); return x.v.CompareAndSwap(o, n) }

func AddInt32(p *int32, d int32) int32              { pt(); return atomic.AddInt32(p, d) }
func AddInt64(p *int64, d int64) int64              { pt(); return atomic.AddInt64(p, d) }
func AddUint32(p *uint32, d uint32) uint32          { pt(); return atomic.AddUint32(p, d) }
func AddUint64(p *uint64, d uint64) uint64          { pt(); return atomic.AddUint64(p, d) }
func LoadInt32(p *int32) int32                      { pt(); return atomic.LoadInt32(p) }
func LoadInt64(p *int64) int64                      { pt(); return atomic.LoadInt64(p) }
func LoadUint32(p *uint32) uint32                   { pt(); return atomic.LoadUint32(p) }
func LoadUint64(p *uint64) uint64                   { pt(); return atomic.LoadUint64(p) }
func StoreInt32(p *int32, v int32)                  { pt(); atomic.StoreInt32(p, v) }
func StoreInt64(p *int64, v int64)                  { pt(); atomic.StoreInt64(p, v) }
func StoreUint32(p *uint32, v uint32)               { pt(); atomic.StoreUint32(p, v) }
func StoreUint64(p *uint64, v uint64)               { pt(); atomic.StoreUint64(p, v) }
func CompareAndSwapInt32(p *int32, o, n int32) bool { pt(); return atomic.CompareAndSwapInt32(p, o, n) }
func CompareAndSwapInt64(p *int64, o, n int64) bool { pt(); return atomic.CompareAndSwapInt64(p, o, n) }
func CompareAndSwapUint32(p *uint32, o, n uint32) bool {
	pt()
	return atomic.CompareAndSwapUint32(p, o, n)
}
func CompareAndSwapUint64(p *uint64, o, n uint64) bool {
	pt()
	return atomic.CompareAndSwapUint64(p, o, n)
}
