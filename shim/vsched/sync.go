package vsched

import (
	gosync "sync"
	"unsafe"
)

// The types below replace package sync in instrumented library files (the instrumenter
// rewrites `import "sync"` to this package under the name sync). Each operation is a
// scheduling point followed by the real operation, so the race detector sees exactly the
// synchronisation the library really performs.

type (
	Pool   = gosync.Pool
	Map    = gosync.Map
	Locker = gosync.Locker
)

type Mutex struct {
	mu    gosync.Mutex
	held  bool
	owner int
}

//go:norace
func (m *Mutex) Lock() {
	if !active {
		m.mu.Lock()
		return
	}
	me, ab := enter(opLock, unsafe.Pointer(m), "")
	if ab {
		if !m.held && m.mu.TryLock() {
			m.held, m.owner = true, me
		}
		return
	}
	m.held, m.owner = true, me
	m.mu.Lock()
	after(me)
}

//go:norace
func (m *Mutex) TryLock() bool {
	if !active {
		return m.mu.TryLock()
	}
	me, ab := enter(opYield, unsafe.Pointer(m), "")
	ok := false
	if !m.held && m.mu.TryLock() {
		m.held, m.owner, ok = true, me, true
	}
	if !ab {
		after(me)
	}
	return ok
}

//go:norace
func (m *Mutex) Unlock() {
	if !active {
		m.mu.Unlock()
		return
	}
	me, ab := enter(opYield, unsafe.Pointer(m), "")
	if ab {
		if m.held && m.owner == me {
			m.held = false
			m.mu.Unlock()
		}
		return
	}
	m.held = false
	m.mu.Unlock()
	after(me)
}

type RWMutex struct {
	mu gosync.RWMutex
	w  bool
	r  int
}

//go:norace
func (m *RWMutex) Lock() {
	if !active {
		m.mu.Lock()
		return
	}
	me, ab := enter(opWLock, unsafe.Pointer(m), "")
	if ab {
		return
	}
	m.w = true
	m.mu.Lock()
	after(me)
}

//go:norace
func (m *RWMutex) Unlock() {
	if !active {
		m.mu.Unlock()
		return
	}
	me, ab := enter(opYield, unsafe.Pointer(m), "")
	if m.w {
		m.w = false
		m.mu.Unlock()
	}
	if !ab {
		after(me)
	}
}

//go:norace
func (m *RWMutex) RLock() {
	if !active {
		m.mu.RLock()
		return
	}
	me, ab := enter(opRLock, unsafe.Pointer(m), "")
	if ab {
		return
	}
	m.r++
	m.mu.RLock()
	after(me)
}

//go:norace
func (m *RWMutex) RUnlock() {
	if !active {
		m.mu.RUnlock()
		return
	}
	me, ab := enter(opYield, unsafe.Pointer(m), "")
	if m.r > 0 {
		m.r--
		m.mu.RUnlock()
	}
	if !ab {
		after(me)
	}
}

type WaitGroup struct {
	wg gosync.WaitGroup
	n  int
}

//go:norace
func (w *WaitGroup) Add(d int) {
	if !active {
		w.wg.Add(d)
		return
	}
	me, ab := enter(opYield, unsafe.Pointer(w), "")
	w.n += d
	w.wg.Add(d)
	if !ab {
		after(me)
	}
}

func (w *WaitGroup) Done() { w.Add(-1) }

//go:norace
func (w *WaitGroup) Wait() {
	if !active {
		w.wg.Wait()
		return
	}
	me, ab := enter(opWgWait, unsafe.Pointer(w), "")
	if ab {
		return
	}
	w.wg.Wait()
	after(me)
}

type Once struct {
	m    Mutex
	done bool
}

//go:norace
func (o *Once) Do(f func()) {
	o.m.Lock()
	defer o.m.Unlock()
	if !o.isDone() {
		defer o.setDone()
		f()
	}
}

//go:norace
func (o *Once) isDone() bool { return o.done }

//go:norace
func (o *Once) setDone() { o.done = true }
