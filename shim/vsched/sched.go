// Package vsched is E3 of DESIGN.md: a cooperative scheduler that owns every goroutine,
// channel operation, select, mutex and wait group the library executes (after the
// instrumenter's rewrites), lets exactly one registered goroutine ("thread") run at a time,
// and asks a harness-supplied chooser which enabled thread runs next at every
// synchronisation operation.
//
// The hand-off between threads is invisible to Go's race detector: parked threads spin on a
// plain word (read through a noinline, norace function, yielding with runtime.Gosched) and
// every function of this package is //go:norace and allocation-free on shared state. The
// detector therefore sees only the library's own synchronisation (the real Lock, channel
// operation or atomic each shim still performs) and reports a race in a schedule iff two
// conflicting accesses are unordered by the library's own happens-before, even though the
// schedule executed them one after the other.
//
// When no execution is active every shim is the real operation (passthrough).
package vsched

import (
	"runtime"
	gosync "sync"
	"unsafe"
)

const (
	MaxT      = 24
	maxCases  = 8
	maxClosed = 256
)

type opKind uint8

const (
	opNone   opKind = iota
	opResume        // ready to continue, always enabled (new thread, or after a passive rendezvous)
	opYield         // always enabled scheduling point (unlock, close, atomics, wg.Add...)
	opLock
	opRLock
	opWLock
	opSend
	opRecv
	opSelect
	opWgWait
	opEnd // thread 0 only: enabled when nothing else is
)

var kindNames = [...]string{"none", "resume", "yield", "lock", "rlock", "wlock", "send", "recv", "select", "wgwait", "end"}

const (
	stUnused uint8 = iota
	stParked       // has a pending op, waiting to be chosen
	stRunning
	stPassive // released only to complete its half of a rendezvous
	stFinished
)

type selCase struct {
	send bool
	ch   unsafe.Pointer
}

type thread struct {
	state      uint8
	wake       uint32
	ack        uint32
	pending    opKind
	obj        unsafe.Pointer
	ncases     int
	cases      [maxCases]selCase
	hasDefault bool
	selIdx     int
	partner    int
	lib        bool
	aborted    bool
	site       string // where the thread was spawned
	opSite     string // where its pending operation is
	panicked   bool
	panicVal   interface{}
	ops        uint32 // operations completed (for signatures)
	sig        uint64 // rolling hash of completed operations
	name       uint64 // schedule-independent name: hash of (parent's name, parent's spawn count)
	spawned    uint32
}

// Chooser is asked at every scheduling decision. kind: 0 = which thread runs (n enabled
// threads in canonical order: the running one first if still enabled, then ascending ids;
// runningEnabled tells whether answer != 0 is a preemption), 1 = which ready select case,
// 2 = which rendezvous partner.
type Chooser func(kind, n int, runningEnabled bool) int

var (
	active   bool
	T        [MaxT]thread
	nT       int
	cur      int
	chooser  Chooser
	steps    int
	maxSteps int
	livelock bool
	closed   [maxClosed]unsafe.Pointer
	nClosed  int
	joinWG   gosync.WaitGroup

	sigOverflow bool

	// AtomicPoints makes every vatomic operation a scheduling point.
	AtomicPoints bool

	// per-object version counters for happens-before signatures
	objTab [512]struct {
		p    unsafe.Pointer
		v    uint32
		name uint64
	}
	nObj int
)

//go:noinline
//go:norace
func load32(p *uint32) uint32 { return *p }

//go:noinline
//go:norace
func store32(p *uint32, v uint32) { *p = v }

//go:norace
func spinUntil(p *uint32) {
	for load32(p) == 0 {
		runtime.Gosched()
	}
	store32(p, 0)
}

//go:norace
func chanPtr[T any](ch chan T) unsafe.Pointer { return *(*unsafe.Pointer)(unsafe.Pointer(&ch)) }

//go:norace
func chanPtrR[T any](ch <-chan T) unsafe.Pointer { return *(*unsafe.Pointer)(unsafe.Pointer(&ch)) }

//go:norace
func chanPtrS[T any](ch chan<- T) unsafe.Pointer { return *(*unsafe.Pointer)(unsafe.Pointer(&ch)) }

// chanLenCap reads qcount and dataqsiz, the first two words of runtime.hchan (checked by
// selfTest at Begin).
//
//go:norace
func chanLenCap(p unsafe.Pointer) (int, int) {
	return int(*(*uint)(p)), int(*(*uint)(unsafe.Add(p, unsafe.Sizeof(uint(0)))))
}

//go:norace
func isClosed(p unsafe.Pointer) bool {
	for i := 0; i < nClosed; i++ {
		if closed[i] == p {
			return true
		}
	}
	return false
}

const fnvPrime = 1099511628211

//go:norace
func mix(h, v uint64) uint64 { return (h ^ v) * fnvPrime }

// objTouch returns the schedule-independent name of the object and its version before
// this operation, then bumps the version. An object is named after its first toucher
// (that thread's name and operation count): deterministic threads with equal histories
// touch the same objects, so equal signatures imply equal naming.
//
//go:norace
func objTouch(me int, p unsafe.Pointer) (uint64, uint32) {
	for i := 0; i < nObj; i++ {
		if objTab[i].p == p {
			v := objTab[i].v
			objTab[i].v++
			return objTab[i].name, v
		}
	}
	if nObj < len(objTab) {
		objTab[nObj].p = p
		objTab[nObj].v = 1
		objTab[nObj].name = mix(mix(14695981039346656037, T[me].name), uint64(T[me].ops)+77)
		nObj++
		return objTab[nObj-1].name, 0
	}
	sigOverflow = true
	return 0, 0
}

//go:norace
func objName(p unsafe.Pointer) uint64 {
	for i := 0; i < nObj; i++ {
		if objTab[i].p == p {
			return objTab[i].name
		}
	}
	return 0
}

// Active reports whether an execution is being scheduled.
//
//go:norace
func Active() bool { return active }

func selfTest() {
	ch := make(chan int, 3)
	ch <- 1
	ch <- 2
	l, c := chanLenCap(chanPtr(ch))
	if l != 2 || c != 3 {
		panic("vsched: unsupported runtime channel layout")
	}
}

// Begin starts an execution; the calling goroutine becomes thread 0.
//
//go:norace
func Begin(c Chooser, horizon int) {
	if active {
		panic("vsched: Begin while active")
	}
	selfTest()
	for i := range T {
		T[i] = thread{}
	}
	nT = 1
	T[0].state = stRunning
	T[0].name = 1
	sigOverflow = false
	cur = 0
	chooser = c
	steps = 0
	maxSteps = horizon
	livelock = false
	nClosed = 0
	nObj = 0
	active = true
}

// Go spawns a harness thread.
func Go(site string, f func()) int { return spawn(site, false, f) }

// GoLib spawns a library thread (a rewritten `go` statement).
//
//go:norace
func GoLib(site string, f func()) {
	if !active {
		go f()
		return
	}
	if T[cur].aborted {
		// the execution is being torn down: run it as a plain goroutine so deferred
		// library code cannot wedge
		return
	}
	spawn(site, true, f)
}

//go:norace
func spawn(site string, lib bool, f func()) int {
	if !active {
		panic("vsched: Go outside an execution")
	}
	if nT >= MaxT {
		panic("vsched: too many threads")
	}
	me := cur
	id := nT
	nT++
	T[me].spawned++
	T[id] = thread{state: stParked, pending: opResume, lib: lib, site: site, name: mix(mix(1469598103934665603, T[me].name), uint64(T[me].spawned))}
	joinWG.Add(1)
	go threadMain(id, f)
	// spawning is a scheduling point: the child may run first
	T[me].pending = opYield
	T[me].opSite = site
	schedule(me)
	return id
}

func threadMain(id int, f func()) {
	defer joinWG.Done()
	defer finish(id)
	defer func() {
		if r := recover(); r != nil {
			notePanic(id, r)
		}
	}()
	park(id)
	f()
}

//go:norace
func notePanic(id int, r interface{}) {
	T[id].panicked = true
	T[id].panicVal = r
}

// park waits until thread id is given the token (or released passively, or aborted).
//
//go:norace
func park(id int) {
	spinUntil(&T[id].wake)
	if T[id].aborted {
		runtime.Goexit()
	}
}

//go:norace
func finish(id int) {
	if !active {
		return
	}
	if T[id].aborted {
		T[id].state = stFinished
		store32(&T[id].ack, 1)
		return
	}
	T[id].state = stFinished
	T[id].pending = opNone
	schedule(-1)
}

//go:norace
func enabled(i int) bool {
	t := &T[i]
	if t.state != stParked {
		return false
	}
	switch t.pending {
	case opResume, opYield:
		return true
	case opLock:
		return !(*Mutex)(t.obj).held
	case opRLock:
		return !(*RWMutex)(t.obj).w
	case opWLock:
		return !(*RWMutex)(t.obj).w && (*RWMutex)(t.obj).r == 0
	case opWgWait:
		return (*WaitGroup)(t.obj).n <= 0
	case opSend:
		return chanReady(i, true, t.obj) >= 0
	case opRecv:
		return chanReady(i, false, t.obj) >= 0
	case opSelect:
		if t.hasDefault {
			return true
		}
		for k := 0; k < t.ncases; k++ {
			if chanReady(i, t.cases[k].send, t.cases[k].ch) >= 0 {
				return true
			}
		}
		return false
	case opEnd:
		return false // handled specially
	}
	return false
}

// chanReady tells whether an operation by thread me on channel p can complete now.
// It returns -1 if not, MaxT if it can complete without a partner, or otherwise the
// number of available partners (>= 1, needs a rendezvous).
//
//go:norace
func chanReady(me int, send bool, p unsafe.Pointer) int {
	if p == nil {
		return -1
	}
	if isClosed(p) {
		return MaxT // recv gets zero value; send panics (as it would in reality)
	}
	l, c := chanLenCap(p)
	if send {
		if l < c {
			return MaxT
		}
	} else {
		if l > 0 {
			return MaxT
		}
	}
	if c != 0 {
		// buffered: a full/empty buffered channel needs the *other side to move first*;
		// that side is itself enabled, so no rendezvous is modelled.
		return -1
	}
	n := 0
	for j := 0; j < nT; j++ {
		if j != me && partnerCase(j, !send, p) >= 0 {
			n++
		}
	}
	if n == 0 {
		return -1
	}
	return n
}

// partnerCase returns the select-case index (or 0 for a plain op) with which parked
// thread j could take the given side of a rendezvous on p, or -1.
//
//go:norace
func partnerCase(j int, send bool, p unsafe.Pointer) int {
	t := &T[j]
	if t.state != stParked {
		return -1
	}
	switch t.pending {
	case opSend:
		if send && t.obj == p {
			return 0
		}
	case opRecv:
		if !send && t.obj == p {
			return 0
		}
	case opSelect:
		for k := 0; k < t.ncases; k++ {
			if t.cases[k].send == send && t.cases[k].ch == p {
				return k
			}
		}
	}
	return -1
}

// schedule is called by the running thread me after it published its pending operation
// (me == -1: the running thread finished). It returns when me has been chosen to perform
// its operation.
//
//go:norace
func schedule(me int) {
	steps++
	var en [MaxT]int
	n := 0
	runningEnabled := false
	if me >= 0 {
		T[me].state = stParked
		if enabled(me) {
			en[n] = me
			n++
			runningEnabled = true
		}
	}
	for i := 0; i < nT; i++ {
		if i != me && enabled(i) {
			en[n] = i
			n++
		}
	}
	over := maxSteps > 0 && steps > maxSteps
	if over {
		livelock = true
	}
	next := -1
	if n == 0 || over {
		// nothing can move (or horizon exceeded): thread 0's End becomes enabled
		if T[0].state == stParked && T[0].pending == opEnd {
			next = 0
		} else if n == 0 {
			// thread 0 is not waiting in End: the harness main thread itself is stuck
			panic("vsched: deadlock with thread 0 not in End (harness must only spawn and End)")
		}
	}
	if next < 0 {
		k := 0
		if n > 1 {
			k = chooser(0, n, runningEnabled)
		}
		next = en[k]
	}
	if next != me {
		cur = next
		store32(&T[next].wake, 1)
		if me < 0 {
			return
		}
		park(me)
		if T[me].state == stPassive {
			// released only to complete our half of a rendezvous chosen by the partner
			return
		}
	}
	// me was chosen: resolve select case and rendezvous partner
	t := &T[me]
	t.state = stRunning
	t.partner = -1
	cur = me
	if t.pending == opEnd {
		return
	}
	send, p, needChan := false, unsafe.Pointer(nil), false
	switch t.pending {
	case opSend:
		send, p, needChan = true, t.obj, true
	case opRecv:
		send, p, needChan = false, t.obj, true
	case opSelect:
		var ready [maxCases]int
		nr := 0
		for k := 0; k < t.ncases; k++ {
			if chanReady(me, t.cases[k].send, t.cases[k].ch) >= 0 {
				ready[nr] = k
				nr++
			}
		}
		if nr == 0 {
			t.selIdx = -1 // default
		} else {
			k := 0
			if nr > 1 {
				k = chooser(1, nr, false)
			}
			t.selIdx = ready[k]
			send, p, needChan = t.cases[t.selIdx].send, t.cases[t.selIdx].ch, true
		}
	}
	if needChan {
		r := chanReady(me, send, p)
		if r >= 1 && r < MaxT {
			// rendezvous: pick the partner
			var ps [MaxT]int
			np := 0
			for j := 0; j < nT; j++ {
				if j != me && partnerCase(j, !send, p) >= 0 {
					ps[np] = j
					np++
				}
			}
			k := 0
			if np > 1 {
				k = chooser(2, np, false)
			}
			j := ps[k]
			T[j].selIdx = partnerCase(j, !send, p)
			T[j].state = stPassive
			t.partner = j
			store32(&T[j].ack, 0)
			store32(&T[j].wake, 1)
		}
	}
	sign(me, t.pending, p)
}

//go:norace
func sign(me int, k opKind, p unsafe.Pointer) {
	t := &T[me]
	obj := p
	if obj == nil {
		obj = t.obj
	}
	var on uint64
	var v uint32
	if obj != nil {
		on, v = objTouch(me, obj)
	}
	h := t.sig
	h = mix(h, uint64(k))
	h = mix(h, on)
	h = mix(h, uint64(v))
	if t.pending == opSelect {
		h = mix(h, uint64(t.selIdx+2))
	}
	if t.partner >= 0 {
		// a rendezvous: both sides record each other
		pn := T[t.partner].name
		h = mix(h, pn)
		pt := &T[t.partner]
		ph := pt.sig
		ph = mix(ph, uint64(pt.pending)+100)
		ph = mix(ph, on)
		ph = mix(ph, uint64(v))
		ph = mix(ph, uint64(pt.selIdx+2))
		ph = mix(ph, t.name)
		pt.sig = ph
		pt.ops++
	}
	t.sig = h
	t.ops++
}

// enter publishes an operation and waits to be chosen. It returns the calling thread's id
// and whether the thread is aborted (then the caller performs a non-blocking real op).
//
//go:norace
func enter(k opKind, obj unsafe.Pointer, site string) (int, bool) {
	me := cur
	t := &T[me]
	if t.aborted {
		return me, true
	}
	t.pending = k
	t.obj = obj
	t.opSite = site
	schedule(me)
	return me, false
}

// after completes an operation: the active side waits for its passive partner to have
// parked again; a passive thread parks until it is scheduled for real.
//
//go:norace
func after(me int) {
	t := &T[me]
	if t.aborted {
		return
	}
	if t.state == stPassive {
		t.pending = opResume
		t.obj = nil
		t.state = stParked
		store32(&t.ack, 1)
		park(me)
		t.state = stRunning
		cur = me
		return
	}
	if t.partner >= 0 {
		spinUntil(&T[t.partner].ack)
		t.partner = -1
	}
	t.pending = opNone
}

// AfterOp is called by rewritten select statements after the real operation of the chosen
// case (the thread id comes from Select, see DESIGN.md E3).
//
//go:norace
func AfterOp(me int) {
	if me < 0 {
		return
	}
	after(me)
}

// ---- channels ----

//go:norace
func Send[T any](site string, ch chan<- T, v T) {
	if !active {
		ch <- v
		return
	}
	me, ab := enter(opSend, chanPtrS(ch), site)
	if ab {
		select {
		case ch <- v:
		default:
		}
		return
	}
	ch <- v
	after(me)
}

//go:norace
func Recv[T any](site string, ch <-chan T) T {
	if !active {
		return <-ch
	}
	me, ab := enter(opRecv, chanPtrR(ch), site)
	if ab {
		select {
		case v := <-ch:
			return v
		default:
			var z T
			return z
		}
	}
	v := <-ch
	after(me)
	return v
}

//go:norace
func Recv2[T any](site string, ch <-chan T) (T, bool) {
	if !active {
		v, ok := <-ch
		return v, ok
	}
	me, ab := enter(opRecv, chanPtrR(ch), site)
	if ab {
		select {
		case v, ok := <-ch:
			return v, ok
		default:
			var z T
			return z, false
		}
	}
	v, ok := <-ch
	after(me)
	return v, ok
}

//go:norace
func Close[T any](ch chan T) {
	if !active {
		close(ch)
		return
	}
	me, ab := enter(opYield, chanPtr(ch), "")
	p := chanPtr(ch)
	if !isClosed(p) && nClosed < maxClosed {
		closed[nClosed] = p
		nClosed++
	}
	close(ch)
	if !ab {
		after(me)
	}
}

// MarkClosed tells the scheduler that ch was closed by code it does not see.
//
//go:norace
func MarkClosed[T any](ch chan T) {
	p := chanPtr(ch)
	if active && !isClosed(p) && nClosed < maxClosed {
		closed[nClosed] = p
		nClosed++
	}
}

type SelCase struct {
	send bool
	ch   unsafe.Pointer
}

//go:norace
func CaseRecv[T any](ch <-chan T) SelCase { return SelCase{false, chanPtrR(ch)} }

//go:norace
func CaseSend[T any](ch chan<- T) SelCase { return SelCase{true, chanPtrS(ch)} }

// Select waits until one of the cases is ready (or returns -1 at once when hasDefault and
// none is) and returns the index of the case whose real operation the caller must now
// perform, plus the calling thread's id for AfterOp. In passthrough mode it polls.
//
//go:norace
func Select(site string, hasDefault bool, cases ...SelCase) (int, int) {
	if len(cases) > maxCases {
		panic("vsched: too many select cases")
	}
	if !active {
		return passthroughSelect(hasDefault, cases), -1
	}
	me := cur
	t := &T[me]
	if t.aborted {
		for k := range cases {
			if chanReadyPlain(cases[k].send, cases[k].ch) {
				return k, -1
			}
		}
		if hasDefault {
			return -1, -1
		}
		runtime.Goexit()
	}
	t.ncases = len(cases)
	for k := range cases {
		t.cases[k] = selCase{cases[k].send, cases[k].ch}
	}
	t.hasDefault = hasDefault
	t.pending = opSelect
	t.obj = nil
	t.opSite = site
	schedule(me)
	return t.selIdx, me
}

//go:norace
func chanReadyPlain(send bool, p unsafe.Pointer) bool {
	if p == nil {
		return false
	}
	l, c := chanLenCap(p)
	if send {
		return l < c
	}
	return l > 0 || isClosed(p)
}

func passthroughSelect(hasDefault bool, cases []SelCase) int {
	panic("vsched: select outside a scheduled execution (the scheduler build runs library code only inside Begin/End)")
}

// Threads / End ------------------------------------------------------------

// ThreadInfo describes one thread at the end of an execution.
type ThreadInfo struct {
	ID       int
	Lib      bool
	Site     string
	Finished bool
	Parked   string // kind of the operation it was blocked in ("" if finished)
	OpSite   string
	Enabled  bool // it could still have run (only when the horizon stopped the execution)
	Panicked bool
	PanicVal interface{}
	Sig      uint64
}

type Summary struct {
	Threads  []ThreadInfo
	Steps    int
	Livelock bool
}

// End is thread 0's last operation: it becomes enabled when no other thread can move,
// reports what is still parked, tears those threads down and joins every goroutine of the
// execution (a real WaitGroup wait: this is what orders consecutive executions for the
// race detector).
func End() Summary {
	sum := endSched()
	joinWG.Wait()
	finishEnd()
	return sum
}

//go:norace
func finishEnd() { active = false }

//go:norace
func endSched() Summary {
	if !active || cur != 0 {
		panic("vsched: End must be called by thread 0 of an active execution")
	}
	T[0].pending = opEnd
	T[0].opSite = ""
	schedule(0)
	var sum Summary
	sum.Steps = steps
	sum.Livelock = livelock
	sum.Threads = make([]ThreadInfo, 0, nT)
	for i := 1; i < nT; i++ {
		t := &T[i]
		ti := ThreadInfo{ID: i, Lib: t.lib, Site: t.site, Finished: t.state == stFinished, Panicked: t.panicked, PanicVal: t.panicVal, Sig: t.sig}
		if t.state == stParked {
			ti.Parked = kindNames[t.pending]
			ti.OpSite = t.opSite
			ti.Enabled = enabled(i)
		}
		sum.Threads = append(sum.Threads, ti)
	}
	// abort what is left, one thread at a time
	for i := 1; i < nT; i++ {
		t := &T[i]
		if t.state == stFinished {
			continue
		}
		t.aborted = true
		cur = i
		store32(&t.ack, 0)
		store32(&t.wake, 1)
		spinUntil(&t.ack)
	}
	cur = 0
	return sum
}

// Yield is an explicit always-enabled scheduling point for harness threads.
//
//go:norace
func Yield() {
	if !active {
		return
	}
	me, ab := enter(opYield, nil, "")
	if !ab {
		after(me)
	}
}

// StateSig returns a digest of the happens-before state: for every thread (identified by
// its schedule-independent name) the signature of the operations it completed and its
// pending operation. Equal digests at two scheduling points mean equal partial orders of
// synchronisation operations, hence equal states and equal futures. ok is false when the
// object table overflowed (then no pruning may be based on the digest).
//
//go:norace
func StateSig() (sig uint64, ok bool) {
	var sum uint64
	for i := 0; i < nT; i++ {
		t := &T[i]
		h := mix(14695981039346656037, t.name)
		h = mix(h, t.sig)
		h = mix(h, uint64(t.state))
		h = mix(h, uint64(t.pending))
		if t.pending == opSelect {
			for k := 0; k < t.ncases; k++ {
				h = mix(h, objName(t.cases[k].ch)+uint64(k))
			}
		} else if t.obj != nil {
			h = mix(h, objName(t.obj))
		}
		if t.panicked {
			h = mix(h, 99)
		}
		sum += h * (h | 1)
	}
	return sum, !sigOverflow
}

// Cur returns the id of the running thread.
//
//go:norace
func Cur() int { return cur }
