// Package vseam is the map-iteration seam injected by the instrumenter (DESIGN.md E2/E4):
// every `for k, v := range m` over a string- or integer-keyed map in the library is
// rewritten to iterate vseam.Iter(m, site). By default keys come in ascending order, which
// makes every run reproducible; a harness may install Order to choose the order (that is
// how "all map iteration orders" becomes an enumerable choice).
package vseam

import "sort"

type Key interface {
	~string | ~int | ~int8 | ~int16 | ~int32 | ~int64 | ~uint | ~uint8 | ~uint16 | ~uint32 | ~uint64 | ~uintptr
}

// Order, when non-nil, is asked for a permutation of 0..n-1 each time a map with n >= 2
// keys starts to be iterated at site ("file.go:line"); nil result = ascending order.
var Order func(site string, n int) []int

// OrderKeys is like Order but also sees the (sorted) keys of string-keyed maps; it takes
// precedence over Order for those.
var OrderKeys func(site string, keys []string) []int

// Seen, when non-nil, records how many iterations started per site (single-threaded use).
var Seen map[string]int

type It[K Key, V any] struct {
	m    map[K]V
	keys []K
	i    int
	K    K
	V    V
}

func Iter[K Key, V any](m map[K]V, site string) *It[K, V] {
	it := &It[K, V]{m: m}
	if len(m) == 0 {
		return it
	}
	keys := make([]K, 0, len(m))
	for k := range m {
		keys = append(keys, k)
	}
	sort.Slice(keys, func(i, j int) bool { return keys[i] < keys[j] })
	if Seen != nil {
		Seen[site]++
	}
	var perm []int
	if len(keys) >= 2 {
		if ks, ok := any(keys).([]string); ok && OrderKeys != nil {
			perm = OrderKeys(site, ks)
		} else if Order != nil {
			perm = Order(site, len(keys))
		}
	}
	if perm != nil {
		{
			if len(perm) != len(keys) {
				panic("vseam: bad permutation length")
			}
			out := make([]K, len(keys))
			for i, p := range perm {
				out[i] = keys[p]
			}
			keys = out
		}
	}
	it.keys = keys
	return it
}

// Next advances to the next key that is still present in the map (Go skips entries
// deleted during iteration; entries added during iteration may legally be skipped).
func (it *It[K, V]) Next() bool {
	for it.i < len(it.keys) {
		k := it.keys[it.i]
		it.i++
		if v, ok := it.m[k]; ok {
			it.K, it.V = k, v
			return true
		}
	}
	return false
}
