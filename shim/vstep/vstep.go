// Package vstep is the deterministic work counter injected at every function entry and
// loop body of the library (DESIGN.md E2; used by C09 and C19 instead of wall-clock time).
package vstep

// N counts steps since the harness last reset it. It is only meaningful while a single
// goroutine runs library code.
var N uint64

// Limit, when non-zero, makes Hit panic with Exceeded once N passes it (step horizon).
var Limit uint64

// Blown is set when the horizon was exceeded (it stays set even if the library recovers
// the panic).
var Blown bool

type Exceeded struct{ N uint64 }

func (e Exceeded) Error() string { return "vstep: step horizon exceeded" }

//go:norace
func Hit() {
	N++
	if Limit != 0 && N > Limit {
		// the first excess panics; later ones only every 2^16 steps: deferred calls that
		// run while the first panic unwinds a deep stack must not each panic again (nested
		// panics over 10^5 frames take minutes), yet code that recovers and carries on
		// looping is still stopped
		if !Blown || (N-Limit)&0xffff == 0 {
			Blown = true
			panic(Exceeded{Limit})
		}
	}
}

// Reset clears the counter and installs a horizon (0 = none).
func Reset(limit uint64) { N, Limit, Blown = 0, limit, false }
