//go:build verif

package graphql

// Read-only views of private state for the verification harness (DESIGN.md E2). This file
// exists only in the overlay; it is never part of /repo.

// VerifPlanCacheKeys returns the cache keys from most to least recently used, with the
// schema pointer each entry is bound to and whether it holds a plan.
func VerifPlanCacheKeys(c *PlanCache) (keys []string, schemas []*Schema, hasPlan []bool) {
	if c == nil {
		return
	}
	c.mu.Lock()
	defer c.mu.Unlock()
	for el := c.order.Front(); el != nil; el = el.Next() {
		it := el.Value.(*planCacheItem)
		keys = append(keys, it.key)
		schemas = append(schemas, it.e.schema)
		hasPlan = append(hasPlan, it.e.result.Plan != nil)
	}
	return
}

// VerifPlanCacheMapLen returns len(entries) (must equal the list length).
func VerifPlanCacheMapLen(c *PlanCache) int {
	if c == nil {
		return 0
	}
	c.mu.Lock()
	defer c.mu.Unlock()
	return len(c.entries)
}

// VerifPlannedAlternatives lists, for every abstract field of the plan, the runtime type
// names that have been planned so far ("path: T1,T2").
func VerifPlannedAlternatives(p *Plan) map[string][]string {
	out := map[string][]string{}
	if p == nil {
		return out
	}
	var walk func(prefix string, sp *selectionPlan)
	walk = func(prefix string, sp *selectionPlan) {
		if sp == nil {
			return
		}
		for _, fp := range sp.fields {
			path := prefix + "/" + sp.parentType.Name() + "." + fp.responseKey
			if fp.sub != nil {
				walk(path, fp.sub)
			}
			if fp.abstractAlternatives != nil {
				names := []string{}
				for t, sub := range fp.abstractAlternatives {
					names = append(names, t.Name())
					walk(path, sub)
				}
				out[path] = names
			} else if fp.fieldDef != nil {
				switch unwrapNamedType(fp.returnType).(type) {
				case *Interface, *Union:
					out[path] = []string{}
				}
			}
		}
	}
	p.abstractMu.Lock()
	defer p.abstractMu.Unlock()
	walk("", p.root)
	return out
}
